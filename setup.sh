#!/bin/sh
# Builds the driver and warms the build cache (offline; files on disk only).
cd "$(dirname "$0")" || exit 2
. ./env.sh
mkdir -p bin evidence replays
go build -o bin/simdriver ./cmd/simdriver || exit 2
go test -c -vet=off -tags verif -o bin/worker.test ./worker || exit 2
go test -c -vet=off -race -tags verif -o bin/worker-race.test ./worker || exit 2
echo "setup ok"
