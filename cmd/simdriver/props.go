package main

var stdAssume = []string{
	"sampling, not enumeration, over programs/histories/schedules (a clean batch is evidence, not proof)",
	"harness built with Go 1.26.8 (testing/synctest); oracles compare runs inside one process",
}

var props = map[string]*propCfg{
	"C05": {
		Engine: "execsim", Level: "exploration",
		QuickRuns: 20000, ThoroughRuns: 2000000, QuickSeconds: 45, ThoroughSeconds: 1500, TimeoutS: 30,
		Rule: "one run = one generated nest of if/else-if/else and range (0/1/2-variable forms, := and =) over typed/interface slices, pointer-to-slice, arrays, ints(a,b), single- and multi-entry maps, channels fed by producer goroutines on virtual time, index-providing and index-less custom Rangers, empty and non-empty, re-ranged and nested; executed 1-3 times under the adversarial simulated ranger pool and again under the fresh pool, optionally with a function fault at a tape-chosen dynamic call inside a try around range bodies. The rendering is compared with the documented structure evaluated by a small reference (map iterations as multisets). Non-trivial = the program contains at least one if or range; distinct = hash of (program, subjects, fault plans).",
		Assumptions: append([]string{"the reference evaluator implements only the documented if/range rules (conditions from a fixed truthiness table of scalars, nil, pointers, maps, slices, non-zero structs)", "map iteration order is free: multi-entry map ranges have leaf bodies and are compared as multisets", "ints() is not ranged with '=' (its values alias the ranger's counters; C07's concern)"}, stdAssume...),
		Real:        []string{"lexer", "parser (else-if desugaring)", "interpreter (NodeIf, NodeRange, getRanger, rangers)", "ints() built-in", "fastprinter"},
		Stub:        []string{"simulated ranger/Runtime pools (verif hooks)", "virtual clock (testing/synctest) for channel producers", "SimWriter", "probe function fail", "custom Ranger implementations"},
	},
	"C12": {
		Engine: "execsim", Level: "fault_enumeration",
		QuickRuns: 600, ThoroughRuns: 60000, QuickSeconds: 45, ThoroughSeconds: 1500, TimeoutS: 30,
		Rule: "one run = one generated world with failure-site placeholders in every file (executed template, included, imported block, extended parent, exec target; any nesting of range/if/block/yield-content/include; outside try). For every reached site (capped per run) x every failure class (65 classes of self-detected failures, rotated when capped) the placeholder is replaced by a failing action on the same line, and for the function-reports-an-error class every dynamic call of the site (first 3) panics with an error. Judged: error returned not panic; message names the site's file and 1-based line; writer holds exactly the fault-free prefix up to the site (streaming: also at the fault instant). Non-trivial = at least one planted failure judged; distinct = hash of (sources, data).",
		Assumptions: append([]string{"failing actions are single-line, so 'the action's line' is unambiguous", "Go runtime.Errors (integer division by zero) are not demanded by the statement and not planted"}, stdAssume...),
		Real:        []string{"lexer", "parser (node positions)", "interpreter", "built-in functions", "InMemLoader", "fastprinter"},
		Stub:        []string{"simulated Runtime/ranger pools (verif hooks)", "SimWriter", "probe functions mark/fail"},
	},
	"C13": {
		Engine: "execsim", Level: "fault_enumeration",
		QuickRuns: 3000, ThoroughRuns: 400000, QuickSeconds: 45, ThoroughSeconds: 1500, TimeoutS: 30,
		Rule: "one run = one generated world containing one instrumented try statement (bracketed by mark() calls, followed by state probes of '.', isset of every variable incl. the catch variable, yield content, Execute variables) placed under tape-chosen enclosing constructs; EVERY dynamic probe call inside its body is made the failing one (plus the fault-free run and the twin program with the try wrapper removed). Non-trivial = at least one fault point inside the body was judged by the spliced-output oracle; distinct = hash of (sources, data, catch form).",
		Assumptions: append([]string{"bodies only declare their own variables (roll-back of assignments to outer variables is not demanded)", "try statements dynamically nested in another try/exec are skipped by the spliced-output oracle (their offsets are not observable)"}, stdAssume...),
		Real:        []string{"lexer", "parser", "interpreter (executeTry and all enclosing constructs)", "InMemLoader", "fastprinter"},
		Stub:        []string{"simulated Runtime/ranger pools (verif hooks)", "SimWriter", "probe functions mark/fail"},
	},
	"C10": {
		Engine: "execsim", Level: "fault_enumeration",
		QuickRuns: 400, ThoroughRuns: 40000, QuickSeconds: 45, ThoroughSeconds: 1500, TimeoutS: 30,
		Rule: "one run = one generated template world + one history: for EVERY dynamic fault point (k-th probe call panics with an error, or k-th writer Write fails) of a failing execution, followed by EVERY probe template of the world, executed on the runtime the failed execution released (adversarial simulated pool); each call compared with its alone-run (fresh Set, fresh pool). Non-trivial = the history contained at least one failed execution whose runtime was reused; distinct = hash of (sources, data, history).",
		Assumptions: append([]string{"residue is judged through observable behaviour (bytes, error text, template structure hash), not by inspecting Runtime fields"}, stdAssume...),
		Real:        []string{"lexer", "parser", "interpreter (Execute, Runtime.recover)", "default cache", "InMemLoader", "fastprinter"},
		Stub:        []string{"simulated Runtime/ranger pools (verif hooks)", "SimWriter", "probe functions mark/fail"},
	},
}
