package main

var stdAssume = []string{
	"sampling, not enumeration, over programs/histories/schedules (a clean batch is evidence, not proof)",
	"harness built with Go 1.26.8 (testing/synctest); oracles compare runs inside one process",
}

var props = map[string]*propCfg{
	"C02": {
		Engine: "parsesim", Level: "exploration",
		QuickRuns: 80000, ThoroughRuns: 20000000, QuickSeconds: 45, ThoroughSeconds: 1500, TimeoutS: 20,
		Rule:        "one run = a generated world of 1-6 template files under one of 7 delimiter configurations (default, [[ ]], single-byte, multi-byte UTF-8, action and comment delimiters sharing a first byte, custom comment only, long), one file mutated (truncate at a byte offset, delete/duplicate/swap chunks, splice lexer-relevant fragments inside actions, replace bytes; or one of 8 ground-truth structural mistakes), a loader fault plan for the files reached through extends/import, then Set.Parse and Set.GetTemplate for every file, each call in its own testing/synctest bubble inside an isolated worker process. Judged: worker survives (a lexer-goroutine panic kills it), no panic escapes, (template, nil) or (_, error), no goroutine left blocked after the call, syntax errors name a file of the set and a line inside it, ground-truth mistakes are rejected, no hang (per-run watchdog). Every run is non-trivial (it parses); distinct = hash of (delimiters, mutated source, world size, faults).",
		Assumptions: append([]string{"which strings are tried is input generation; the simulator contributes the crash boundary (worker process), the goroutine-lifecycle oracle (synctest bubble), the watchdog and the loader-fault dimension", "sources are capped at 4 KiB"}, stdAssume...),
		Real:        []string{"lexer (goroutine + channel)", "parser", "Set.Parse / GetTemplate / extends+import resolution", "InMemLoader", "default cache"},
		Stub:        []string{"SimLoader (fault injection)", "testing/synctest bubble as goroutine-leak detector", "worker-process isolation + watchdog"},
	},
	"C11": {
		Engine: "schedsim", Level: "exploration",
		QuickRuns: 6000, ThoroughRuns: 3000000, RaceQuickRuns: 3000, RaceThoroughRuns: 400000, QuickSeconds: 40, ThoroughSeconds: 900, TimeoutS: 40,
		Rule:        "one run = 2-4 simulated clients (real goroutines, exactly one running at a time, next client chosen from the tape at every yield point: jet's verifYield hook sites before each lock/shared-container access and every entry into the Loader/Cache/Writer seams; uniform-with-stay-bias or PCT strategy) each issuing 2-12 tape-chosen operations on one Set: GetTemplate/Parse/Execute of generated templates (first-time loads of shared extends/import/include targets, field-cache population reset per run), AddGlobal/LookupGlobal/{{g}} reads with unique values, Set/Delete/Exists/Open on the in-memory loader, edits of volatile templates, dump(); Runtimes and rangers are handed across clients by the simulated pools. The same seeds are also executed by a -race worker whose baton is invisible to the race detector (so unsynchronised accesses are reported deterministically). Non-trivial = more than one context switch and more than one operation; distinct = hash of (context-switch sequence, operation history).",
		Assumptions: append([]string{"the race detector is the oracle for data-race freedom: sound for the executions it sees, blind to code the workloads never reach", "loads are not required to be linearizable against loader edits, and concurrent GetTemplate calls need not return the same pointer (the statement promises neither)"}, stdAssume...),
		Real:        []string{"Set (cache, globals + gmx, getTemplate)", "default cache (sync.Map)", "struct field cache + mutex", "InMemLoader + lock", "lexer goroutines", "parser", "interpreter", "Go race detector (second half of the runs)"},
		Stub:        []string{"seeded scheduler with stealth baton (verifYield hooks)", "simulated Runtime/ranger pools", "yielding Loader/Cache/Writer wrappers", "porcupine models (register, map)"},
	},
	"C15": {
		Engine: "loadersim", Level: "exploration",
		QuickRuns: 80000, ThoroughRuns: 10000000, QuickSeconds: 45, ThoroughSeconds: 1500, TimeoutS: 30,
		Rule:        "one run = a history of 3-10 references (GetTemplate, Parse, extends, import, include literal and computed from data, exec, includeIfExists) with tape-spelled names (absolute/relative, ./ ../ // segments at any position, more .. than the depth, trailing slash, names aimed at a canary outside the root) from referrers at directory depth 0-3 under 4 extension lists, default or recording cache, normal or development mode; 1 run in 8 on a real directory-rooted OSFileSystemLoader with a canary file outside the root. Invariant on EVERY Loader.Exists/Open and Cache.Get/Put argument: canonical, and in the allowed set {expected(referrer, name, kind)+ext}. Non-trivial = at least one path crossed a seam; distinct = hash of (history, extensions, loader kind).",
		Assumptions: append([]string{"backslashes are never generated (platform specific)", "the expected canonical form is computed by the harness's own segment-stack normaliser"}, stdAssume...),
		Real:        []string{"Set (GetTemplate/Parse/getSiblingTemplate)", "parser (extends/import)", "interpreter (include, exec, includeIfExists)", "InMemLoader", "OSFileSystemLoader on a real scratch directory", "default cache"},
		Stub:        []string{"SimLoader recording wrapper", "SimCache recording cache"},
	},
	"C16": {
		Engine: "loadersim", Level: "exploration",
		QuickRuns: 120000, ThoroughRuns: 20000000, QuickSeconds: 45, ThoroughSeconds: 1500, TimeoutS: 30,
		Rule:        "one run = a history of 4-30 operations (GetTemplate, GetTemplate+Execute with run-time includes, Parse with extends/import, loader Set/Delete with unique version markers, new Set over the same loader, arming loader faults) on 1-2 Sets over one SimLoader, under tape-chosen development mode, default or recording cache and one of 5 extension lists (two candidate extensions may exist); faults stop at a tape-chosen point. Judged per operation against a clause model: identical pointer and zero loader calls on repeat hits; no answer without the loader unless something legitimately cacheable was loaded under that name (failure-cached, put-in-parse); progress once faults stopped; dev mode reloads, renders current versions and never Puts; Exists candidates in configured order and exactly the found path opened. Non-trivial = at least two judged operations; distinct = hash of (history, extensions).",
		Assumptions: append([]string{"the model is silent where the statement is silent (e.g. whether two spellings share a cache entry; Close discipline)"}, stdAssume...),
		Real:        []string{"Set (getTemplate, cache probe, extension iteration, loadFromFile)", "default cache (sync.Map)", "parser (extends/import with cacheAfterParsing)", "interpreter (run-time include)", "InMemLoader"},
		Stub:        []string{"SimLoader (recording, fault injection: transient miss, open error, read error after k bytes, close error, unparsable content)", "SimCache recording cache"},
	},
	"C19": {
		Engine: "loadersim", Level: "exploration",
		QuickRuns: 40000, ThoroughRuns: 5000000, QuickSeconds: 45, ThoroughSeconds: 1500, TimeoutS: 30,
		Rule:        "one run = an edit/query history of 3-25 operations against a reference tree (path -> file bytes | directory) on one of: InMemLoader with arbitrary spellings; OSFileSystemLoader over a real per-run scratch directory (WriteFile/MkdirAll/RemoveAll); httpfs over a simulated http.FileSystem with injected Open/Stat/Read errors; embedfs over a static embedded tree (EXHAUSTIVE sweep of its path alphabet to depth 4); multi stacks of 1-3 loaders with overlapping contents and AddLoaders mid-history. Judged per query: Exists(p) iff the reference has a regular file there (never a directory); Exists implies Open reads exactly the reference bytes (multi: those of the first loader in construction order that has the file); after an injected fault that call may fail, never wrong bytes. Non-trivial = at least one query; distinct = hash of (configuration, edit history, query count).",
		Assumptions: append([]string{"file-system loaders are only queried with clean absolute paths (what a Set produces)", "OSFileSystemLoader runs on the real disk without fault injection; embed.FS cannot be edited at run time"}, stdAssume...),
		Real:        []string{"InMemLoader", "OSFileSystemLoader (real scratch directory)", "loaders/httpfs", "loaders/embedfs", "loaders/multi"},
		Stub:        []string{"simulated http.FileSystem (SimFS) with fault injection", "reference tree model"},
	},
	"C05": {
		Engine: "execsim", Level: "exploration",
		QuickRuns: 100000, ThoroughRuns: 10000000, QuickSeconds: 45, ThoroughSeconds: 1500, TimeoutS: 30,
		Rule:        "one run = one generated nest of if/else-if/else and range (0/1/2-variable forms, := and =) over typed/interface slices, pointer-to-slice, arrays, ints(a,b), single- and multi-entry maps, channels fed by producer goroutines on virtual time, index-providing and index-less custom Rangers, empty and non-empty, re-ranged and nested; executed 1-3 times under the adversarial simulated ranger pool and again under the fresh pool, optionally with a function fault at a tape-chosen dynamic call inside a try around range bodies. The rendering is compared with the documented structure evaluated by a small reference (map iterations as multisets). Non-trivial = the program contains at least one if or range; distinct = hash of (program, subjects, fault plans).",
		Assumptions: append([]string{"the reference evaluator implements only the documented if/range rules (conditions from a fixed truthiness table of scalars, nil, pointers, maps, slices, non-zero structs)", "map iteration order is free: multi-entry map ranges have leaf bodies and are compared as multisets", "ints() is not ranged with '=' (its values alias the ranger's counters; C07's concern)"}, stdAssume...),
		Real:        []string{"lexer", "parser (else-if desugaring)", "interpreter (NodeIf, NodeRange, getRanger, rangers)", "ints() built-in", "fastprinter"},
		Stub:        []string{"simulated ranger/Runtime pools (verif hooks)", "virtual clock (testing/synctest) for channel producers", "SimWriter", "probe function fail", "custom Ranger implementations"},
	},
	"C12": {
		Engine: "execsim", Level: "fault_enumeration",
		QuickRuns: 10000, ThoroughRuns: 1000000, QuickSeconds: 45, ThoroughSeconds: 1500, TimeoutS: 30,
		Rule:        "one run = one generated world with failure-site placeholders in every file (executed template, included, imported block, extended parent, exec target; any nesting of range/if/block/yield-content/include; outside try). For every reached site (capped per run) x every failure class (65 classes of self-detected failures, rotated when capped) the placeholder is replaced by a failing action on the same line, and for the function-reports-an-error class every dynamic call of the site (first 3) panics with an error. Judged: error returned not panic; message names the site's file and 1-based line; writer holds exactly the fault-free prefix up to the site (streaming: also at the fault instant). Non-trivial = at least one planted failure judged; distinct = hash of (sources, data).",
		Assumptions: append([]string{"failing actions are single-line, so 'the action's line' is unambiguous", "Go runtime.Errors (integer division by zero) are not demanded by the statement and not planted"}, stdAssume...),
		Real:        []string{"lexer", "parser (node positions)", "interpreter", "built-in functions", "InMemLoader", "fastprinter"},
		Stub:        []string{"simulated Runtime/ranger pools (verif hooks)", "SimWriter", "probe functions mark/fail"},
	},
	"C13": {
		Engine: "execsim", Level: "fault_enumeration",
		QuickRuns: 60000, ThoroughRuns: 5000000, QuickSeconds: 45, ThoroughSeconds: 1500, TimeoutS: 30,
		Rule:        "one run = one generated world containing one instrumented try statement (bracketed by mark() calls, followed by state probes of '.', isset of every variable incl. the catch variable, yield content, Execute variables) placed under tape-chosen enclosing constructs; EVERY dynamic probe call inside its body is made the failing one (plus the fault-free run and the twin program with the try wrapper removed). Non-trivial = at least one fault point inside the body was judged by the spliced-output oracle; distinct = hash of (sources, data, catch form).",
		Assumptions: append([]string{"bodies only declare their own variables (roll-back of assignments to outer variables is not demanded)", "try statements dynamically nested in another try/exec are skipped by the spliced-output oracle (their offsets are not observable)"}, stdAssume...),
		Real:        []string{"lexer", "parser", "interpreter (executeTry and all enclosing constructs)", "InMemLoader", "fastprinter"},
		Stub:        []string{"simulated Runtime/ranger pools (verif hooks)", "SimWriter", "probe functions mark/fail"},
	},
	"C10": {
		Engine: "execsim", Level: "fault_enumeration",
		QuickRuns: 6000, ThoroughRuns: 1000000, QuickSeconds: 45, ThoroughSeconds: 1500, TimeoutS: 30, OrderSample: 160,
		Rule:        "one run = one generated template world + one history: for EVERY dynamic fault point (k-th probe call panics with an error, or k-th writer Write fails) of a failing execution, followed by EVERY probe template of the world, executed on the runtime the failed execution released (adversarial simulated pool); each call compared with its alone-run (fresh Set, fresh pool). Non-trivial = the history contained at least one failed execution whose runtime was reused; distinct = hash of (sources, data, history).",
		Assumptions: append([]string{"residue is judged through observable behaviour (bytes, error text, template structure hash), not by inspecting Runtime fields"}, stdAssume...),
		Real:        []string{"lexer", "parser", "interpreter (Execute, Runtime.recover)", "default cache", "InMemLoader", "fastprinter"},
		Stub:        []string{"simulated Runtime/ranger pools (verif hooks)", "SimWriter", "probe functions mark/fail"},
	},
}
