package main

import (
	"bufio"
	"bytes"
	"encoding/json"
	"fmt"
	"io"
	"os"
	"os/exec"
	"regexp"
	"sort"
	"strings"
	"sync"
	"time"

	"verif/sim"
)

// ringBuf keeps the last cap bytes written to it (worker stderr).
type ringBuf struct {
	mu  sync.Mutex
	buf []byte
	cap int
}

func (r *ringBuf) Write(p []byte) (int, error) {
	r.mu.Lock()
	defer r.mu.Unlock()
	r.buf = append(r.buf, p...)
	if len(r.buf) > r.cap {
		r.buf = r.buf[len(r.buf)-r.cap:]
	}
	return len(p), nil
}

func (r *ringBuf) String() string {
	r.mu.Lock()
	defer r.mu.Unlock()
	return string(r.buf)
}

type worker struct {
	bin    string
	race   bool
	cmd    *exec.Cmd
	stdin  io.WriteCloser
	res    *bufio.Reader
	resF   *os.File
	stderr *ringBuf
	gomax  int
}

type crashInfo struct {
	Exit     int
	Stderr   string
	TimedOut bool
}

func startWorker(bin string, race bool, gomax int) (*worker, error) {
	w := &worker{bin: bin, race: race, gomax: gomax}
	if err := w.start(); err != nil {
		return nil, err
	}
	return w, nil
}

func (w *worker) start() error {
	pr, pw, err := os.Pipe()
	if err != nil {
		return err
	}
	cmd := exec.Command(w.bin, "-test.run", "^TestWorker$", "-test.timeout", "0", "-test.count", "1")
	cmd.ExtraFiles = []*os.File{pw}
	cmd.Env = append(os.Environ(), "GORACE=halt_on_error=1 exitcode=66 history_size=5", "GOTRACEBACK=all")
	if w.gomax > 0 {
		cmd.Env = append(cmd.Env, fmt.Sprintf("GOMAXPROCS=%d", w.gomax))
	}
	w.stderr = &ringBuf{cap: 512 << 10}
	cmd.Stderr = w.stderr
	cmd.Stdout = w.stderr
	stdin, err := cmd.StdinPipe()
	if err != nil {
		return err
	}
	if err := cmd.Start(); err != nil {
		return err
	}
	pw.Close()
	w.cmd, w.stdin, w.resF = cmd, stdin, pr
	w.res = bufio.NewReaderSize(pr, 1<<20)
	return nil
}

func (w *worker) stop() {
	if w.cmd == nil {
		return
	}
	w.stdin.Close()
	done := make(chan struct{})
	go func() { w.cmd.Wait(); close(done) }()
	select {
	case <-done:
	case <-time.After(2 * time.Second):
		w.cmd.Process.Kill()
		<-done
	}
	w.resF.Close()
	w.cmd = nil
}

// do sends one request and waits for its result. If the worker dies or the
// timeout expires, crash is non-nil and the worker has been restarted.
func (w *worker) do(rq *sim.Request, timeout time.Duration) (*sim.Response, *crashInfo, error) {
	if w.cmd == nil {
		if err := w.start(); err != nil {
			return nil, nil, err
		}
	}
	b, _ := json.Marshal(rq)
	b = append(b, '\n')
	timedOut := false
	var tmu sync.Mutex
	timer := time.AfterFunc(timeout, func() {
		tmu.Lock()
		timedOut = true
		tmu.Unlock()
		w.cmd.Process.Kill()
	})
	defer timer.Stop()
	_, werr := w.stdin.Write(b)
	var resp sim.Response
	gotResult := false
	if werr == nil {
		for {
			line, err := w.res.ReadBytes('\n')
			if len(line) > 0 {
				var r sim.Response
				if jerr := json.Unmarshal(line, &r); jerr != nil {
					return nil, nil, fmt.Errorf("bad response from worker: %v: %s", jerr, sim.Clip(string(line), 200))
				}
				if r.Begin != 0 {
					continue
				}
				if r.ID == rq.ID || r.Error != "" {
					resp = r
					gotResult = true
					break
				}
			}
			if err != nil {
				break
			}
		}
	}
	if gotResult {
		return &resp, nil, nil
	}
	// worker died
	timer.Stop()
	w.stdin.Close()
	err := w.cmd.Wait()
	w.resF.Close()
	ci := &crashInfo{Stderr: w.stderr.String()}
	tmu.Lock()
	ci.TimedOut = timedOut
	tmu.Unlock()
	if ee, ok := err.(*exec.ExitError); ok {
		ci.Exit = ee.ExitCode()
	}
	w.cmd = nil
	if serr := w.start(); serr != nil {
		return nil, ci, serr
	}
	return nil, ci, nil
}

// innermostJet finds the first jet frame in a block of stack text (Go panic
// trace or TSan report: one function per line, innermost first).
func innermostJet(block string) string {
	for _, ln := range strings.Split(block, "\n") {
		ln = strings.TrimSpace(ln)
		if !strings.HasPrefix(ln, "github.com/CloudyKit/") {
			continue
		}
		fn := ln
		if j := strings.LastIndex(fn, "("); j > 0 {
			fn = fn[:j]
		}
		fn = strings.TrimPrefix(fn, "github.com/CloudyKit/jet/v6")
		fn = strings.TrimPrefix(fn, "github.com/CloudyKit/")
		fn = strings.TrimPrefix(fn, ".")
		if strings.HasPrefix(fn, "verif") || strings.HasPrefix(fn, "Verif") {
			continue
		}
		for {
			k := strings.LastIndex(fn, ".func")
			if k < 0 {
				break
			}
			fn = fn[:k]
		}
		if k := strings.LastIndex(fn, ".gowrap"); k > 0 {
			fn = fn[:k]
		}
		return fn
	}
	return ""
}

// firstFrame returns the innermost frame of a TSan stack block.
func firstFrame(block string) string {
	for _, ln := range strings.Split(block, "\n") {
		ln = strings.TrimSpace(ln)
		if ln == "" || strings.HasSuffix(ln, ":") {
			continue
		}
		if strings.HasPrefix(ln, "runtime.") || strings.HasPrefix(ln, "internal/") || strings.HasPrefix(ln, "sync") || strings.HasPrefix(ln, "reflect.") {
			continue
		}
		return ln
	}
	return ""
}

// interpretCrash turns a dead worker into a violation candidate.
func interpretCrash(ci *crashInfo) sim.Violation {
	se := ci.Stderr
	if ci.TimedOut {
		return sim.Violation{Oracle: "liveness", Key: "hang", Detail: "worker did not answer within the per-run watchdog and was killed"}
	}
	if i := strings.LastIndex(se, sim.MemoryLimitMarker); i >= 0 {
		return sim.Violation{Oracle: "liveness", Key: "hang", Detail: "the run allocated without bound and the worker gave up: " + sim.Clip(se[i:], 300)}
	}
	if i := strings.LastIndex(se, "WARNING: DATA RACE"); i >= 0 {
		rep := se[i:]
		if j := strings.Index(rep, "=================="); j > 0 {
			rep = rep[:j]
		}
		// split into the two access stacks
		parts := regexp.MustCompile(`(?m)^(Read|Write|Previous read|Previous write|Atomic|Previous atomic)[^\n]*$`).Split(rep, -1)
		var fns []string
		nJet := 0
		for k := 1; k < len(parts) && k <= 2; k++ {
			blk := parts[k]
			if g := strings.Index(blk, "\nGoroutine "); g > 0 {
				blk = blk[:g]
			}
			f := innermostJet(blk)
			if f == "" {
				// no jet frame on this side: e.g. the caller reading from a reader jet handed out
				f = "caller:" + firstFrame(blk)
			} else {
				nJet++
			}
			fns = append(fns, f)
		}
		sort.Strings(fns)
		v := sim.Violation{Oracle: "race", Key: "race:" + strings.Join(fns, "~"), Detail: sim.Clip(rep, 3500)}
		if nJet == 0 {
			// neither access is in jet: the harness races with itself (machinery bug)
			v.Oracle = "harness-race"
		}
		return v
	}
	if i := strings.Index(se, "fatal error: all goroutines are asleep"); i >= 0 {
		return sim.Violation{Oracle: "liveness", Key: "deadlock", Detail: sim.Clip(se[i:], 3000)}
	}
	if i := strings.Index(se, "fatal error: concurrent map"); i >= 0 {
		return sim.Violation{Oracle: "race", Key: "fatal:concurrent-map:" + innermostJet(se[i:]), Detail: sim.Clip(se[i:], 3000)}
	}
	if i := strings.Index(se, "fatal error:"); i >= 0 {
		line := se[i:]
		if j := strings.Index(line, "\n"); j > 0 {
			line = line[:j]
		}
		return sim.Violation{Oracle: "crash", Key: "crash:" + innermostJet(se[i:]) + ":" + strings.TrimSpace(strings.TrimPrefix(line, "fatal error:")), Detail: sim.Clip(se[i:], 3000)}
	}
	if i := strings.Index(se, "panic: "); i >= 0 {
		return sim.Violation{Oracle: "crash", Key: "crash:" + innermostJet(se[i:]), Detail: sim.Clip(se[i:], 3000)}
	}
	return sim.Violation{Oracle: "crash", Key: fmt.Sprintf("exit:%d", ci.Exit), Detail: sim.Clip(tail(se, 3000), 3000)}
}

func tail(s string, n int) string {
	if len(s) <= n {
		return s
	}
	return s[len(s)-n:]
}

var _ = bytes.NewBuffer
