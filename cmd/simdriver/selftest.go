package main

func cmdSelftest(args []string) int {
	fatal2("selftest: not built yet")
	return 2
}
