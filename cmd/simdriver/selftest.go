package main

import (
	"flag"
	"fmt"
	"sort"
	"strings"
	"sync"
	"time"

	"verif/sim"
)

// selftest: determinism of the machinery itself. For every claimed property
// the same run indices are executed in several fresh worker processes, under
// different GOMAXPROCS values, in forward and reverse order (so state leaking
// from one run into the next inside a process shows up), and - for C11 - also
// in the -race worker. Event-log hash, canonical tape and violation keys of
// every run must be identical everywhere. Exit 0 = deterministic, 1 = not.
func cmdSelftest(args []string) int {
	fs := flag.NewFlagSet("selftest", flag.ExitOnError)
	k := fs.Int("runs", 200, "run indices per property")
	procs := fs.Int("procs", 30, "worker processes per property")
	seed := fs.Int64("seed", envInt("VERIF_SEED", 1), "base seed")
	fs.Parse(args)
	names := fs.Args()
	if len(names) == 0 {
		for p := range props {
			names = append(names, p)
		}
	}
	sort.Strings(names)
	bin, err := buildWorker(false)
	if err != nil {
		fatal2("%v", err)
	}
	binRace, err := buildWorker(true)
	if err != nil {
		fatal2("%v", err)
	}
	bad := 0
	for _, prop := range names {
		cfg := props[prop]
		if cfg == nil {
			fatal2("unknown property %s", prop)
		}
		r := &runner{cfg: cfg, prop: prop, tier: "quick", seed: *seed}
		type key struct{ run int64 }
		type obs struct{ hash, tape, viol string }
		var mu sync.Mutex
		seen := map[int64]map[obs][]string{}
		var wg sync.WaitGroup
		start := time.Now()
		gmp := []int{1, 4, 16}
		sem := make(chan struct{}, 16)
		for p := 0; p < *procs; p++ {
			p := p
			wg.Add(1)
			sem <- struct{}{}
			go func() {
				defer wg.Done()
				defer func() { <-sem }()
				race := cfg.RaceQuickRuns > 0 && p%5 == 4
				b := bin
				if race {
					b = binRace
				}
				g := gmp[p%len(gmp)]
				w, e := startWorker(b, race, g)
				if e != nil {
					fatal2("%v", e)
				}
				defer w.stop()
				label := fmt.Sprintf("proc%d(GOMAXPROCS=%d,race=%v,reverse=%v)", p, g, race, p%2 == 1)
				for i := 0; i < *k; i++ {
					run := int64(i)
					if p%2 == 1 {
						run = int64(*k - 1 - i)
					}
					resp, ci, e := w.do(r.request(run), time.Duration(cfg.TimeoutS)*time.Second)
					var o obs
					switch {
					case e != nil:
						o = obs{"error:" + e.Error(), "", ""}
					case ci != nil:
						v := interpretCrash(ci)
						o = obs{"crash", "", v.Oracle + "/" + v.Key}
					case resp.Error != "":
						o = obs{"harness-error:" + sim.Clip(resp.Error, 200), "", ""}
					default:
						var vk []string
						for _, v := range resp.Result.Violations {
							vk = append(vk, v.Oracle+"/"+v.Key)
						}
						sort.Strings(vk)
						o = obs{resp.Result.EventHash, fmt.Sprint(sim.HashString(fmt.Sprint(resp.Result.Tape))), strings.Join(vk, ",")}
					}
					mu.Lock()
					if seen[run] == nil {
						seen[run] = map[obs][]string{}
					}
					seen[run][o] = append(seen[run][o], label)
					mu.Unlock()
				}
			}()
		}
		wg.Wait()
		nBad := 0
		for run, m := range seen {
			if len(m) > 1 {
				nBad++
				if nBad <= 3 {
					fmt.Printf("NONDETERMINISTIC property=%s run=%d:\n", prop, run)
					for o, who := range m {
						fmt.Printf("   hash=%s tape=%s violations=[%s]  <- %d processes e.g. %s\n", o.hash, o.tape, o.viol, len(who), who[0])
					}
				}
			}
		}
		fmt.Printf("selftest %s: %d runs x %d processes (GOMAXPROCS 1/4/16, forward+reverse order%s): %d nondeterministic runs (%.1fs)\n",
			prop, *k, *procs, map[bool]string{true: ", every 5th process a -race worker", false: ""}[cfg.RaceQuickRuns > 0], nBad, time.Since(start).Seconds())
		bad += nBad
	}
	if bad > 0 {
		return 1
	}
	return 0
}
