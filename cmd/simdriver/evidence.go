package main

import (
	"encoding/json"
	"fmt"
	"os"
	"path/filepath"
	"sort"
	"time"

	"verif/sim"
)

// propCfg describes one claimed property to the driver. The text fields go
// into the evidence file; every number in the evidence is measured at run time.
type propCfg struct {
	Engine           string
	Level            string // exploration | fault_enumeration
	QuickRuns        int64
	ThoroughRuns     int64
	RaceQuickRuns    int64
	RaceThoroughRuns int64
	QuickSeconds     int // wall-clock cap of the exploration phase
	ThoroughSeconds  int
	TimeoutS         int // per-run watchdog
	OrderSample      int // quick tier: this many runs are replayed alone in fresh processes and compared (x10 in the thorough tier)
	Rule             string
	Assumptions      []string
	Real             []string
	Stub             []string
}

type aggregate struct {
	sigs      map[string]struct{}
	evals     int64
	raceEvals int64
	nontriv   int64
	invalid   int64
	invalidBy map[string]int64
	crashes   int64
	knownSeen int64
	stats     map[string]int64
	samples   []string
	sampleN   int
	distinct  map[string]map[string]struct{}
	// the slowest completed run (wall clock, includes waiting for a CPU): how far runs stay from the watchdog
	slowest    time.Duration
	slowestRun int64
}

func newAggregate() *aggregate {
	return &aggregate{sigs: map[string]struct{}{}, stats: map[string]int64{}, invalidBy: map[string]int64{}, distinct: map[string]map[string]struct{}{}}
}

func (a *aggregate) add(r *sim.Result, race bool) {
	a.evals++
	if race {
		a.raceEvals++
	}
	if r.Invalid != "" {
		a.invalid++
		a.invalidBy[r.Invalid]++
	}
	if r.Nontrivial && r.Invalid == "" {
		a.nontriv++
		if r.Sig != "" {
			a.sigs[r.Sig] = struct{}{}
		}
		// keep a few samples: the first two and then sparser ones
		a.sampleN++
		if r.Sample != "" && (len(a.samples) < 2 || (len(a.samples) < 5 && a.sampleN%997 == 0)) {
			a.samples = append(a.samples, sim.Clip(r.Sample, 2500))
		}
	}
	for k, v := range r.Stats {
		a.stats[k] += v
	}
	for k, v := range r.Distinct {
		if a.distinct[k] == nil {
			a.distinct[k] = map[string]struct{}{}
		}
		a.distinct[k][v] = struct{}{}
	}
}

func writeEvidence(prop string, cfg *propCfg, tier string, seed int64, a *aggregate, done, raceDone int64, wall, buildS, exploreS float64, violations, workers int) {
	cov := map[string]any{
		"evaluations":         a.evals,
		"distinct_nontrivial": len(a.sigs),
		"rule":                cfg.Rule,
		"samples":             a.samples,
		"exhaustive":          false,
		"simulated_runs":      done,
		"race_detector_runs":  raceDone,
		"invalid_cases":       a.invalid,
		"worker_crashes":      a.crashes,
		"known_findings_seen": a.knownSeen,
		"workers":             workers,
		"components_real":     cfg.Real,
		"components_stub":     cfg.Stub,
		"slowest_run_s":       float64(a.slowest.Milliseconds()) / 1000,
		"slowest_run_index":   a.slowestRun,
		"per_run_watchdog_s":  cfg.TimeoutS,
	}
	if len(a.invalidBy) > 0 {
		cov["invalid_by_reason"] = a.invalidBy
	}
	if exploreS > 0 {
		cov["runs_per_hour"] = int64(float64(done+raceDone) / exploreS * 3600)
		cov["seeds_per_hour"] = int64(3600 / (wall + 0.001))
	}
	// split measured counters into groups by prefix for readability
	groups := map[string]map[string]int64{}
	for k, v := range a.stats {
		g, name := "counters", k
		for i := 0; i < len(k); i++ {
			if k[i] == ':' {
				g, name = k[:i], k[i+1:]
				break
			}
		}
		if groups[g] == nil {
			groups[g] = map[string]int64{}
		}
		groups[g][name] = v
	}
	gk := make([]string, 0, len(groups))
	for g := range groups {
		gk = append(gk, g)
	}
	sort.Strings(gk)
	for _, g := range gk {
		switch g {
		case "fault":
			cov["faults_fired"] = groups[g]
		case "probe":
			cov["rare_condition_probes"] = groups[g]
		case "vtime":
			cov["simulated_time_s"] = float64(groups[g]["ns"]) / 1e9
		default:
			cov[g] = groups[g]
		}
	}
	for k, set := range a.distinct {
		cov["distinct_"+k] = len(set)
	}
	if len(a.samples) == 0 {
		cov["samples"] = []string{"(no non-trivial case was produced)"}
	}
	ev := map[string]any{
		"property_id": prop,
		"tier":        tier,
		"seed":        seed,
		"level":       cfg.Level,
		"coverage":    cov,
		"assumptions": cfg.Assumptions,
		"wall_s":      wall,
		"violations":  violations,
	}
	dir := filepath.Join(verifDir, "evidence")
	os.MkdirAll(dir, 0o755)
	b, _ := json.MarshalIndent(ev, "", " ")
	path := filepath.Join(dir, prop+".json")
	if err := os.WriteFile(path, append(b, '\n'), 0o644); err != nil {
		fmt.Fprintf(os.Stderr, "simdriver: cannot write evidence: %v\n", err)
	}
}
