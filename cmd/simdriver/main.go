// simdriver: builds the simulation workers from /repo's working tree, shards
// seeded runs over worker processes, aggregates, minimises and replays
// failures, matches known findings and writes the evidence file.
//
// exit 0: property held on everything explored (KNOWN-FINDING lines possible)
// exit 1: violation (a line "VIOLATION property=<id> replay=<path>" is printed)
// exit 2: build / watchdog / machinery trouble (never a VIOLATION)
package main

import (
	"encoding/json"
	"flag"
	"fmt"
	"os"
	"os/exec"
	"path/filepath"
	"runtime"
	"sort"
	"strconv"
	"strings"
	"sync"
	"sync/atomic"
	"time"

	"verif/sim"
)

var verifDir = "/verif"

func fatal2(format string, a ...any) {
	fmt.Fprintf(os.Stderr, "simdriver: "+format+"\n", a...)
	os.Exit(2)
}

func main() {
	if d := os.Getenv("VERIF_DIR"); d != "" {
		verifDir = d
	} else if wd, err := os.Getwd(); err == nil {
		if _, err := os.Stat(filepath.Join(wd, "MANIFEST.json")); err == nil {
			verifDir = wd
		} else if _, err := os.Stat(filepath.Join(wd, "cmd", "simdriver")); err == nil {
			verifDir = wd
		}
	}
	if len(os.Args) < 2 {
		fatal2("usage: simdriver check <prop> [--tier quick|thorough] | replay <file> | selftest [engine...] | show <file>")
	}
	switch os.Args[1] {
	case "check":
		os.Exit(cmdCheck(os.Args[2:]))
	case "replay":
		os.Exit(cmdReplay(os.Args[2:]))
	case "selftest":
		os.Exit(cmdSelftest(os.Args[2:]))
	default:
		fatal2("unknown command %q", os.Args[1])
	}
}

// ---------------------------------------------------------------- build

var buildMu sync.Mutex

func buildWorker(race bool) (string, error) {
	buildMu.Lock()
	defer buildMu.Unlock()
	name := "worker.test"
	args := []string{"test", "-c", "-vet=off", "-tags", "verif"}
	if race {
		name = "worker-race.test"
		args = append(args, "-race")
	}
	out := filepath.Join(verifDir, "bin", name)
	args = append(args, "-o", out, "./worker")
	cmd := exec.Command("go", args...)
	cmd.Dir = verifDir
	// norandomizedheapbase64: this Go release places the heap at a random base, so the TEXT of a pointer
	// (%p, %v of a struct with pointer fields, jet's dump()) has a different number of digits from
	// process to process. Outputs are compared after normalising addresses, but jet's printer writes
	// long strings in 4096-byte pieces: with addresses of another length the pieces - and with them
	// the number of Write calls and what "the k-th Write fails" cuts off - fall elsewhere, and a run
	// stops being a function of its tape across processes. With the classic fixed heap base the
	// addresses have one length.
	cmd.Env = append(os.Environ(), "GOFLAGS=-mod=mod", "GOPROXY=off", "GOSUMDB=off", "GOTOOLCHAIN=local", "GOEXPERIMENT=norandomizedheapbase64")
	b, err := cmd.CombinedOutput()
	if err != nil {
		return "", fmt.Errorf("building %s failed: %v\n%s", name, err, b)
	}
	return out, nil
}

// ---------------------------------------------------------------- running

type outcome struct {
	run    int64
	race   bool
	res    *sim.Result
	crash  *crashInfo
	errStr string
	dur    time.Duration
	// before: the runs this worker process had completed before this one (most recent last, at most 64)
	before []int64
}

type runner struct {
	cfg     *propCfg
	prop    string
	tier    string
	seed    int64
	bin     string
	binRace string
	nextID  int64
}

func (r *runner) request(run int64) *sim.Request {
	return &sim.Request{ID: atomic.AddInt64(&r.nextID, 1), Engine: r.cfg.Engine, Prop: r.prop, Tier: r.tier, Seed: r.seed, Run: run}
}

func (r *runner) replayRequest(tape []uint64, log bool) *sim.Request {
	return &sim.Request{ID: atomic.AddInt64(&r.nextID, 1), Engine: r.cfg.Engine, Prop: r.prop, Tier: r.tier, Seed: r.seed, Replay: true, Tape: tape, Log: log}
}

// sweep runs [0,n) on nw workers; stops feeding when deadline passes.
func (r *runner) sweep(n int64, nw int, race bool, deadline time.Time, sink func(outcome)) (done int64, err error) {
	bin := r.bin
	if race {
		bin = r.binRace
	}
	var next int64 = -1
	var wg sync.WaitGroup
	var mu sync.Mutex
	var firstErr error
	var completed int64
	var hangs, finished int64
	timeout := time.Duration(r.cfg.TimeoutS) * time.Second
	for i := 0; i < nw; i++ {
		wg.Add(1)
		go func() {
			defer wg.Done()
			w, e := startWorker(bin, race, 0)
			if e != nil {
				mu.Lock()
				if firstErr == nil {
					firstErr = e
				}
				mu.Unlock()
				return
			}
			defer w.stop()
			var recent []int64 // runs completed by the current worker process
			for {
				run := atomic.AddInt64(&next, 1)
				if run >= n || time.Now().After(deadline) {
					return
				}
				mu.Lock()
				stop := firstErr != nil
				mu.Unlock()
				if stop {
					return
				}
				// when runs hang systematically (a lock that is never released, a wait that never ends) every
				// further run costs a full watchdog period: a handful of witnesses is enough
				if h := atomic.LoadInt64(&hangs); h >= 6 && atomic.LoadInt64(&finished) < 20*h {
					return
				}
				t0 := time.Now()
				resp, ci, e := w.do(r.request(run), timeout)
				o := outcome{run: run, race: race, dur: time.Since(t0), before: append([]int64(nil), recent...)}
				if ci != nil && ci.TimedOut {
					atomic.AddInt64(&hangs, 1)
				} else {
					atomic.AddInt64(&finished, 1)
				}
				recent = append(recent, run)
				if len(recent) > 64 {
					recent = recent[len(recent)-64:]
				}
				switch {
				case e != nil:
					o.errStr = e.Error()
				case ci != nil:
					recent = nil // the worker process is gone; the next run starts a new one
					o.crash = ci
				case resp.Error != "":
					o.errStr = resp.Error
				default:
					o.res = resp.Result
				}
				mu.Lock()
				if o.errStr != "" && firstErr == nil {
					firstErr = fmt.Errorf("run %d: %s", run, o.errStr)
				}
				completed++
				sink(o)
				mu.Unlock()
			}
		}()
	}
	wg.Wait()
	return completed, firstErr
}

// evalTape runs one tape in the given worker (restarting it on a crash).
func (r *runner) evalTape(w *worker, tape []uint64, log bool) (vs []sim.Violation, res *sim.Result, err error) {
	resp, ci, e := w.do(r.replayRequest(tape, log), time.Duration(r.cfg.TimeoutS)*time.Second)
	if e != nil {
		return nil, nil, e
	}
	if ci != nil {
		return []sim.Violation{interpretCrash(ci)}, nil, nil
	}
	if resp.Error != "" {
		return nil, nil, fmt.Errorf("%s", resp.Error)
	}
	return resp.Result.Violations, resp.Result, nil
}

// ---------------------------------------------------------------- order independence

// A run must be a function of its tape: what earlier runs did in the same worker process must not
// matter. The harness resets the library's own process-wide state between runs through its hooks
// (pools, struct field cache), and the determinism self-test shows that this suffices on the
// unchanged library. State the simulator does not know about - a package-level cache, memo or pool -
// survives from run to run, and the in-run oracles cannot see it (a run and its own alone-run are
// polluted alike). So a sample of the sweep's runs, each of which ran after several others in a
// long-lived worker, is replayed alone in a fresh process, and the event logs (every call, its
// output and error) are compared.
type orderSample struct {
	run    int64
	tape   []uint64
	hash   string
	before []int64
}

type orderDiff struct {
	orderSample
	aloneHash string
}

func (r *runner) orderCheck(samples []orderSample, nw int) (checked int, diffs []orderDiff) {
	var mu sync.Mutex
	var wg sync.WaitGroup
	next := int64(-1)
	for i := 0; i < nw; i++ {
		wg.Add(1)
		go func() {
			defer wg.Done()
			for {
				k := atomic.AddInt64(&next, 1)
				if k >= int64(len(samples)) {
					return
				}
				sm := samples[k]
				_, res, err := r.evalAfter(r.bin, false, nil, sm.tape, false)
				if err != nil || res == nil {
					continue
				}
				mu.Lock()
				checked++
				if res.EventHash != sm.hash {
					diffs = append(diffs, orderDiff{sm, res.EventHash})
				}
				mu.Unlock()
			}
		}()
	}
	wg.Wait()
	sort.Slice(diffs, func(i, j int) bool { return diffs[i].run < diffs[j].run })
	return
}

// orderConfirm: the run alone (fresh process, twice) gives one log; after a prelude of earlier runs
// it gives another. The prelude is minimised and written into the replay file.
func (r *runner) orderConfirm(d orderDiff, tier string) (*replayFile, string, error) {
	_, a1, e1 := r.evalAfter(r.bin, false, nil, d.tape, true)
	_, a2, e2 := r.evalAfter(r.bin, false, nil, d.tape, true)
	if e1 != nil || e2 != nil || a1 == nil || a2 == nil || a1.EventHash != a2.EventHash {
		return nil, "", fmt.Errorf("the run is not stable alone")
	}
	w, err := startWorker(r.bin, false, 0)
	if err != nil {
		return nil, "", err
	}
	var tapes [][]uint64
	for _, run := range d.before {
		resp, ci, e := w.do(r.request(run), time.Duration(r.cfg.TimeoutS)*time.Second)
		if e != nil || ci != nil || resp == nil || resp.Result == nil {
			continue
		}
		tapes = append(tapes, resp.Result.Tape)
	}
	w.stop()
	differs := func(prelude [][]uint64) *sim.Result {
		for attempt := 0; attempt < 2; attempt++ {
			_, res, err := r.evalAfter(r.bin, false, prelude, d.tape, true)
			if err == nil && res != nil && res.EventHash != a1.EventHash {
				return res
			}
		}
		return nil
	}
	var prelude [][]uint64
	var after *sim.Result
	for n := 1; ; n *= 2 {
		if n > len(tapes) {
			n = len(tapes)
		}
		if res := differs(tapes[len(tapes)-n:]); res != nil {
			prelude, after = append([][]uint64(nil), tapes[len(tapes)-n:]...), res
			break
		}
		if n == len(tapes) {
			return nil, "", fmt.Errorf("no difference after replaying the %d earlier runs of its worker", len(tapes))
		}
	}
	for i := 0; i < len(prelude) && len(prelude) > 1; {
		cand := append(append([][]uint64(nil), prelude[:i]...), prelude[i+1:]...)
		if res := differs(cand); res != nil {
			prelude, after = cand, res
		} else {
			i++
		}
	}
	// first differing event
	diffLine := ""
	for i := 0; i < len(a1.Log) || i < len(after.Log); i++ {
		x, y := "(nothing)", "(nothing)"
		if i < len(a1.Log) {
			x = a1.Log[i]
		}
		if i < len(after.Log) {
			y = after.Log[i]
		}
		if x != y {
			diffLine = fmt.Sprintf("first differing event (#%d):\n  alone:              %s\n  after earlier runs: %s", i+1, sim.Clip(x, 400), sim.Clip(y, 400))
			break
		}
	}
	rep := &replayFile{Property: r.prop, Engine: r.cfg.Engine, Tier: tier, Seed: r.seed, Run: d.run,
		Oracle: "order-independence", Key: "run-depends-on-earlier-runs-in-the-process",
		Detail: fmt.Sprintf("the same run (same tape: same templates, data, history, faults) behaves differently alone in a fresh process (event log %s) than after %d earlier run(s) in the same process (event log %s): the library keeps process-wide state that earlier executions leave behind and later ones read.\n%s", a1.EventHash, len(prelude), after.EventHash, diffLine),
		Tape:   d.tape, Prelude: prelude, Sample: a1.Sample,
		Shrink: fmt.Sprintf("(prelude minimised %d->%d earlier runs)", len(tapes), len(prelude))}
	path, err := writeReplay(r, rep, d.run)
	return rep, path, err
}

// evalAfter starts a fresh worker, replays the prelude tapes in it and then the tape.
func (r *runner) evalAfter(bin string, race bool, prelude [][]uint64, tape []uint64, log bool) ([]sim.Violation, *sim.Result, error) {
	w, err := startWorker(bin, race, 0)
	if err != nil {
		return nil, nil, err
	}
	defer w.stop()
	for _, p := range prelude {
		if _, _, err := r.evalTape(w, p, false); err != nil {
			return nil, nil, err
		}
	}
	return r.evalTape(w, tape, log)
}

// confirmWithPrelude is tried when a finding does not reproduce from its own tape: the run may have
// failed because of what EARLIER runs left behind in the worker process - state the simulator does
// not own and cannot reset (a package-level pool, cache or memo; the unchanged library has none
// besides the ones behind the hooks, but a changed one may). The runs the worker had completed
// before the failing one are replayed first, in a fresh process: the last 1, 2, 4 ... 64 of them;
// then as many of them as possible are dropped again; then the failing tape is minimised with the
// remaining prelude in place. The replay file carries the prelude tapes.
func (r *runner) confirmWithPrelude(c *candidate, tier string) (string, *replayFile, error) {
	if len(c.before) == 0 || c.tape == nil || c.v.Oracle == "liveness" {
		return "", nil, fmt.Errorf("no earlier runs to replay")
	}
	bin := r.bin
	if c.race {
		bin = r.binRace
	}
	// tapes of the earlier runs (generate mode reproduces them; their canonical tapes go into the file)
	w, err := startWorker(bin, c.race, 0)
	if err != nil {
		return "", nil, err
	}
	var tapes [][]uint64
	for _, run := range c.before {
		resp, ci, e := w.do(r.request(run), time.Duration(r.cfg.TimeoutS)*time.Second)
		if e != nil || ci != nil || resp == nil || resp.Result == nil {
			tapes = append(tapes, rawStream(r.seed, r.cfg.Engine, r.prop, run, 1<<12))
			continue
		}
		tapes = append(tapes, resp.Result.Tape)
	}
	w.stop()
	reproduces := func(prelude [][]uint64, tape []uint64) (*sim.Violation, *sim.Result) {
		for attempt := 0; attempt < 3; attempt++ {
			vs, res, err := r.evalAfter(bin, c.race, prelude, tape, true)
			if err != nil {
				return nil, nil
			}
			if v := hasViolation(vs, c.v.Oracle, c.v.Key); v != nil {
				return v, res
			}
		}
		return nil, nil
	}
	var prelude [][]uint64
	for n := 1; ; n *= 2 {
		if n > len(tapes) {
			n = len(tapes)
		}
		if v, _ := reproduces(tapes[len(tapes)-n:], c.tape); v != nil {
			prelude = append([][]uint64(nil), tapes[len(tapes)-n:]...)
			break
		}
		if n == len(tapes) {
			return "", nil, fmt.Errorf("does not reproduce after the %d runs its worker had completed before it either", len(tapes))
		}
	}
	// drop prelude runs that are not needed (oldest first)
	for i := 0; i < len(prelude) && len(prelude) > 1; {
		cand := append(append([][]uint64(nil), prelude[:i]...), prelude[i+1:]...)
		if v, _ := reproduces(cand, c.tape); v != nil {
			prelude = cand
		} else {
			i++
		}
	}
	sh := &shrinker{r: r, oracle: c.v.Oracle, key: c.v.Key, budget: 150, deadline: time.Now().Add(60 * time.Second), prelude: prelude, bin: bin, race: c.race}
	if !sh.test(c.tape) && !sh.test(c.tape) {
		return "", nil, fmt.Errorf("prelude replay is not stable")
	}
	origLen := len(sh.best)
	sh.run()
	v, res := reproduces(prelude, sh.best)
	if v == nil {
		return "", nil, fmt.Errorf("minimised tape does not reproduce after its prelude in a fresh process")
	}
	rep := &replayFile{Property: r.prop, Engine: r.cfg.Engine, Tier: tier, Seed: r.seed, Run: c.run, Race: c.race,
		Oracle: v.Oracle, Key: v.Key, Detail: v.Detail, Tape: sh.best, Prelude: prelude,
		Shrink: fmt.Sprintf("(minimised %d->%d choices in %d replays; shows only after %d earlier run(s) in the same process - state outside the simulator survives between runs; their tapes are in the replay file)", origLen, len(sh.best), sh.tries, len(prelude))}
	if res != nil {
		rep.Sample, rep.Scenario, rep.Log = res.Sample, res.Scenario, res.Log
	}
	path, err := writeReplay(r, rep, c.run)
	return path, rep, err
}

func writeReplay(r *runner, rep *replayFile, run int64) (string, error) {
	dir := filepath.Join(verifDir, "replays")
	os.MkdirAll(dir, 0o755)
	name := fmt.Sprintf("%s-%s-seed%d-run%d.json", r.prop, sanitize(rep.Oracle+"-"+rep.Key), r.seed, run)
	path := filepath.Join(dir, name)
	b, _ := json.MarshalIndent(rep, "", " ")
	if err := os.WriteFile(path, b, 0o644); err != nil {
		return "", err
	}
	return path, nil
}

func hasViolation(vs []sim.Violation, oracle, key string) *sim.Violation {
	for i := range vs {
		if vs[i].Oracle == oracle && vs[i].Key == key {
			return &vs[i]
		}
	}
	// race reports name the two innermost jet functions; which frame of a racing call chain is
	// innermost can differ between two reports of the same race (dumpAll vs VarMap.SortedKeys
	// called from it). For replay/shrink purposes two race keys that share a function are the same finding.
	if oracle == "race" && strings.HasPrefix(key, "race:") {
		want := strings.Split(strings.TrimPrefix(key, "race:"), "~")
		for i := range vs {
			if vs[i].Oracle != "race" || !strings.HasPrefix(vs[i].Key, "race:") {
				continue
			}
			for _, g := range strings.Split(strings.TrimPrefix(vs[i].Key, "race:"), "~") {
				for _, w := range want {
					if g == w && g != "" {
						return &vs[i]
					}
				}
			}
		}
	}
	return nil
}

// rawStream materialises the PRNG stream a generate-mode run consumes, so a
// run whose worker died (and never reported its tape) can still be replayed
// and shrunk from a tape file.
func rawStream(seed int64, engine, prop string, run int64, n int) []uint64 {
	return sim.RawStream(sim.RunSeed(seed, engine, prop, run), n)
}

// ---------------------------------------------------------------- shrinking

type shrinker struct {
	r        *runner
	w        *worker
	oracle   string
	key      string
	budget   int
	deadline time.Time
	tries    int
	best     []uint64
	bestRes  *sim.Result
	bestV    sim.Violation
	lastSeen string
	// prelude: when set, every test starts a fresh worker and runs these tapes first
	prelude [][]uint64
	bin     string
	race    bool
}

func (s *shrinker) test(c []uint64) bool {
	if s.tries >= s.budget || time.Now().After(s.deadline) {
		return false
	}
	s.tries++
	var vs []sim.Violation
	var res *sim.Result
	var err error
	if s.prelude != nil {
		vs, res, err = s.r.evalAfter(s.bin, s.race, s.prelude, c, false)
	} else {
		vs, res, err = s.r.evalTape(s.w, c, false)
	}
	if err != nil {
		s.lastSeen = "error: " + err.Error()
		return false
	}
	v := hasViolation(vs, s.oracle, s.key)
	if v == nil {
		s.lastSeen = "clean"
		if len(vs) > 0 {
			s.lastSeen = ""
			for _, x := range vs {
				s.lastSeen += x.Oracle + "/" + x.Key + " "
			}
		}
		return false
	}
	if res != nil && len(res.Tape) <= len(c) {
		c = trimZeros(res.Tape)
	}
	s.best, s.bestRes, s.bestV = c, res, *v
	return true
}

func trimZeros(t []uint64) []uint64 {
	n := len(t)
	for n > 0 && t[n-1] == 0 {
		n--
	}
	return append([]uint64(nil), t[:n]...)
}

func (s *shrinker) run() {
	improved := true
	for improved && s.tries < s.budget && time.Now().Before(s.deadline) {
		improved = false
		// shortest failing prefix (halving)
		for n := len(s.best) / 2; n > 0; n /= 2 {
			if len(s.best) > n && s.test(append([]uint64(nil), s.best[:len(s.best)-n]...)) {
				improved = true
			}
		}
		// delete chunks, back to front
		for _, k := range []int{8, 4, 2, 1} {
			for i := len(s.best) - k; i >= 0; i-- {
				if i+k > len(s.best) {
					continue
				}
				c := append(append([]uint64(nil), s.best[:i]...), s.best[i+k:]...)
				if s.test(c) {
					improved = true
				}
			}
		}
		// zero chunks
		for _, k := range []int{4, 1} {
			for i := len(s.best) - k; i >= 0; i-- {
				if i+k > len(s.best) {
					continue
				}
				allZero := true
				for j := i; j < i+k; j++ {
					if s.best[j] != 0 {
						allZero = false
					}
				}
				if allZero {
					continue
				}
				c := append([]uint64(nil), s.best...)
				for j := i; j < i+k; j++ {
					c[j] = 0
				}
				if s.test(c) {
					improved = true
				}
			}
		}
		// lower single values (binary search towards 0)
		for i := len(s.best) - 1; i >= 0; i-- {
			if i >= len(s.best) || s.best[i] == 0 {
				continue
			}
			lo, hi := uint64(0), s.best[i]
			for lo < hi && s.tries < s.budget {
				mid := lo + (hi-lo)/2
				c := append([]uint64(nil), s.best...)
				if i >= len(c) {
					break
				}
				c[i] = mid
				if s.test(c) {
					improved = true
					if i >= len(s.best) {
						break
					}
					hi = s.best[i]
					if hi > mid {
						hi = mid
					}
				} else {
					lo = mid + 1
				}
			}
		}
	}
}

// ---------------------------------------------------------------- replay files

type replayFile struct {
	Property string   `json:"property"`
	Engine   string   `json:"engine"`
	Tier     string   `json:"tier"`
	Seed     int64    `json:"seed"`
	Run      int64    `json:"run"`
	Race     bool     `json:"race_worker"`
	Oracle   string   `json:"oracle"`
	Key      string   `json:"key"`
	Detail   string   `json:"detail"`
	Tape     []uint64 `json:"tape"`
	// Prelude: tapes of earlier runs that must be executed first, in the same process, for the
	// finding to show (state the simulator does not own - a package-level pool or cache - survives
	// from run to run). Empty for almost every finding.
	Prelude  [][]uint64 `json:"prelude,omitempty"`
	Sample   string     `json:"sample,omitempty"`
	Scenario any        `json:"scenario,omitempty"`
	Log      []string   `json:"log,omitempty"`
	Shrink   string     `json:"shrink,omitempty"`
}

// ---------------------------------------------------------------- known findings

type knownFinding struct {
	Property string `json:"property"`
	Oracle   string `json:"oracle"`
	Key      string `json:"key"`
	Witness  string `json:"witness"`
}

type knownFile struct {
	Findings []knownFinding `json:"findings"`
	Fixed    []string       `json:"fixed"`
}

func loadKnown() knownFile {
	var kf knownFile
	b, err := os.ReadFile(filepath.Join(verifDir, "known_findings.json"))
	if err != nil {
		return kf
	}
	if err := json.Unmarshal(b, &kf); err != nil {
		fatal2("known_findings.json: %v", err)
	}
	return kf
}

func (kf *knownFile) match(prop string, v sim.Violation) *knownFinding {
	for i := range kf.Findings {
		f := &kf.Findings[i]
		if f.Property == prop && f.Oracle == v.Oracle && f.Key == v.Key {
			return f
		}
	}
	return nil
}

// ---------------------------------------------------------------- check

type candidate struct {
	v    sim.Violation
	run  int64
	race bool
	tape []uint64 // nil when the worker died in generate mode
	res  *sim.Result
	n    int
	alts []*candidate // further runs that showed the same (oracle, key): tried when this one does not reproduce
	// before: the runs its worker process had completed earlier (see confirmWithPrelude)
	before []int64
}

func cmdCheck(args []string) int {
	if len(args) < 1 {
		fatal2("check: property id required")
	}
	prop := args[0]
	fs := flag.NewFlagSet("check", flag.ExitOnError)
	tier := fs.String("tier", envOr("VERIF_TIER", "quick"), "quick|thorough")
	seed := fs.Int64("seed", envInt("VERIF_SEED", 1), "base seed")
	runsFlag := fs.Int64("runs", 0, "override number of runs")
	raceRunsFlag := fs.Int64("race-runs", -1, "override number of race-detector runs")
	workers := fs.Int("workers", 0, "worker processes (default: all cores)")
	maxSec := fs.Int("max-seconds", 0, "wall-clock cap for the exploration phase")
	noEvidence := fs.Bool("no-evidence", false, "do not write the evidence file")
	fs.Parse(args[1:])
	cfg, ok := props[prop]
	if !ok {
		fatal2("property %s is not claimed (see MANIFEST.json not_applicable)", prop)
	}
	if *tier != "quick" && *tier != "thorough" {
		fatal2("bad tier %q", *tier)
	}
	start := time.Now()
	nw := *workers
	if nw <= 0 {
		nw = runtime.NumCPU()
	}
	runs := cfg.QuickRuns
	raceRuns := cfg.RaceQuickRuns
	cap := time.Duration(cfg.QuickSeconds) * time.Second
	if *tier == "thorough" {
		runs, raceRuns = cfg.ThoroughRuns, cfg.RaceThoroughRuns
		cap = time.Duration(cfg.ThoroughSeconds) * time.Second
	}
	if *runsFlag > 0 {
		runs = *runsFlag
	}
	if *raceRunsFlag >= 0 {
		raceRuns = *raceRunsFlag
	}
	if *maxSec > 0 {
		cap = time.Duration(*maxSec) * time.Second
	}
	fmt.Printf("simdriver: property=%s engine=%s tier=%s VERIF_SEED=%d runs=%d race_runs=%d workers=%d\n", prop, cfg.Engine, *tier, *seed, runs, raceRuns, nw)

	r := &runner{cfg: cfg, prop: prop, tier: *tier, seed: *seed}
	var err error
	if r.bin, err = buildWorker(false); err != nil {
		fatal2("%v", err)
	}
	if raceRuns > 0 {
		if r.binRace, err = buildWorker(true); err != nil {
			fatal2("%v", err)
		}
	}
	buildS := time.Since(start).Seconds()

	known := loadKnown()
	agg := newAggregate()
	cands := map[string]*candidate{}
	var candOrder []string
	var orderSamples []orderSample
	sink := func(o outcome) {
		var vs []sim.Violation
		if o.crash != nil {
			vs = []sim.Violation{interpretCrash(o.crash)}
			agg.crashes++
		}
		if o.res != nil && cfg.OrderSample > 0 && !o.race && len(o.before) >= 4 && len(o.res.Violations) == 0 && o.res.Invalid == "" {
			want := cfg.OrderSample
			if *tier == "thorough" {
				want *= 10
			}
			stride := runs / int64(want)
			if stride < 1 {
				stride = 1
			}
			if o.run%stride == 0 && len(orderSamples) < want {
				orderSamples = append(orderSamples, orderSample{run: o.run, tape: o.res.Tape, hash: o.res.EventHash, before: o.before})
			}
		}
		if o.res != nil {
			if o.dur > agg.slowest {
				agg.slowest, agg.slowestRun = o.dur, o.run
			}
			agg.add(o.res, o.race)
			vs = o.res.Violations
		}
		for _, v := range vs {
			k := v.Oracle + "\x00" + v.Key
			c := cands[k]
			if c == nil {
				c = &candidate{v: v, run: o.run, race: o.race, res: o.res, before: o.before}
				if o.res != nil {
					c.tape = o.res.Tape
				}
				cands[k] = c
				candOrder = append(candOrder, k)
			} else {
				alt := &candidate{v: v, run: o.run, race: o.race, res: o.res, before: o.before}
				if o.res != nil {
					alt.tape = o.res.Tape
				}
				if o.res != nil && (c.tape == nil || len(o.res.Tape) < len(c.tape)) {
					// keep the smallest witness tape as the shrink start, the previous one as an alternative
					prev := &candidate{v: c.v, run: c.run, race: c.race, res: c.res, tape: c.tape, before: c.before}
					c.v, c.run, c.race, c.res, c.tape, c.before = v, o.run, o.race, o.res, o.res.Tape, o.before
					alt = prev
				}
				if len(c.alts) < 8 {
					c.alts = append(c.alts, alt)
				}
			}
			c.n++
		}
	}
	exploreStart := time.Now()
	done, err := r.sweep(runs, nw, false, exploreStart.Add(cap), sink)
	if err != nil {
		fatal2("%v", err)
	}
	var raceDone int64
	if raceRuns > 0 {
		raceDone, err = r.sweep(raceRuns, nw, true, time.Now().Add(cap), sink)
		if err != nil {
			fatal2("%v", err)
		}
	}
	var orderFindings []*replayFile
	var orderPaths []string
	if len(orderSamples) > 0 {
		checked, diffs := r.orderCheck(orderSamples, nw)
		agg.stats["counters:order_independence_runs_replayed_alone_in_fresh_processes"] = int64(checked)
		for _, d := range diffs {
			if len(orderFindings) >= 2 {
				break
			}
			rep, path, err := r.orderConfirm(d, *tier)
			if err != nil {
				fmt.Printf("simdriver: run %d behaved differently alone than after earlier runs, but that did not reproduce: %v\n", d.run, err)
				continue
			}
			orderFindings = append(orderFindings, rep)
			orderPaths = append(orderPaths, path)
		}
		if len(diffs) > 0 && len(orderFindings) == 0 {
			fatal2("%d sampled run(s) behaved differently alone than in the sweep and none of it reproduced (nondeterminism in the machinery or in the library)", len(diffs))
		}
	}
	exploreS := time.Since(exploreStart).Seconds()

	// triage candidates
	sort.Strings(candOrder)
	exit := 0
	var violLines, knownLines, notReproduced []string
	reported := 0
	for _, k := range candOrder {
		c := cands[k]
		if c.v.Oracle == "harness-race" {
			fatal2("race inside the harness itself (machinery bug): %s\n%s", c.v.Key, c.v.Detail)
		}
		if c.v.Oracle == "liveness" && c.v.Key == "step-budget" {
			// a generated world can be honestly enormous (nested ranges over long lists below yields): about
			// two runs in a million on the unchanged library. Reported only when a hundred times as
			// frequent as that, and at least 5 runs: then it is a loop the library does not leave.
			limit := int64(5)
			if l := (done + raceDone) / 5000; l > limit {
				limit = l
			}
			agg.stats["counters:runs_stopped_by_the_step_budget"] = int64(c.n)
			if int64(c.n) < limit {
				continue
			}
		}
		if f := known.match(prop, c.v); f != nil {
			knownLines = append(knownLines, fmt.Sprintf("KNOWN-FINDING: property=%s oracle=%s key=%s seen=%d witness=%s", prop, c.v.Oracle, c.v.Key, c.n, f.Witness))
			agg.knownSeen++
			continue
		}
		if reported >= 4 {
			// enough distinct reports; still a violation
			violLines = append(violLines, fmt.Sprintf("(further unreported finding: oracle=%s key=%s runs=%d)", c.v.Oracle, c.v.Key, c.n))
			continue
		}
		path, rep, cerr := r.confirmAndMinimise(c, *tier)
		// a run can fail because of what an EARLIER run left behind in its worker process (e.g. a
		// real sync.Pool the simulator does not own); such a run does not reproduce alone. Other
		// runs that showed the same finding are tried before giving up.
		for i := 0; cerr != nil && i < len(c.alts); i++ {
			fmt.Printf("simdriver: run %d did not reproduce %s/%s alone (%v); trying run %d\n", c.run, c.v.Oracle, c.v.Key, cerr, c.alts[i].run)
			a := c.alts[i]
			a.n = c.n
			path, rep, cerr = r.confirmAndMinimise(a, *tier)
			if cerr == nil {
				c.run = a.run
			}
		}
		if cerr != nil {
			// not alone, from none of its witnesses: perhaps after what earlier runs left in the process
			tryP := append([]*candidate{c}, c.alts...)
			for i := 0; i < len(tryP) && i < 4 && cerr != nil; i++ {
				p2, rep2, e2 := r.confirmWithPrelude(tryP[i], *tier)
				if e2 == nil {
					path, rep, cerr = p2, rep2, nil
					c.run = tryP[i].run
				}
			}
		}
		if cerr != nil && c.v.Oracle == "liveness" && c.v.Key == "hang" {
			// the watchdog is the one oracle that reads a real clock. A run that exceeded it once and
			// then completes alone, twice, in a small fraction of the watchdog period was starved by the
			// machine (other processes), not slow: it is counted and not reported. A run that is
			// genuinely expensive (a quarter of the period or more alone) is machinery trouble: exit 2.
			if d, ok := r.timeAlone(c); ok && d < time.Duration(r.cfg.TimeoutS)*time.Second/4 {
				fmt.Printf("simdriver: run %d exceeded the %ds watchdog once but completes alone in %.2fs (twice, fresh process): transient starvation, not a finding\n", c.run, r.cfg.TimeoutS, d.Seconds())
				agg.stats["counters:transient_watchdog_timeouts"]++
				continue
			}
		}
		if cerr != nil {
			// not reproducible from its tape: machinery trouble (exit 2) - unless another finding of this
			// batch does reproduce (the tree then is nondeterministic AND violates the property: the
			// reproducible finding is what gets reported)
			notReproduced = append(notReproduced, fmt.Sprintf("finding oracle=%s key=%s (run %d) did not reproduce from its tape in a fresh process: %v\n%s", c.v.Oracle, c.v.Key, c.run, cerr, c.v.Detail))
			continue
		}
		reported++
		exit = 1
		violLines = append(violLines, fmt.Sprintf("VIOLATION property=%s replay=%s", prop, path))
		violLines = append(violLines, fmt.Sprintf("  oracle=%s key=%s seed=%d run=%d seen_in_runs=%d tape_len=%d %s", rep.Oracle, rep.Key, *seed, c.run, c.n, len(rep.Tape), rep.Shrink))
		violLines = append(violLines, "  "+strings.ReplaceAll(sim.Clip(rep.Detail, 1500), "\n", "\n  "))
		if rep.Sample != "" {
			violLines = append(violLines, "  case: "+strings.ReplaceAll(sim.Clip(rep.Sample, 1500), "\n", "\n  "))
		}
	}
	if len(notReproduced) > 0 && reported == 0 && len(orderFindings) == 0 {
		fatal2("%s", notReproduced[0])
	}
	for _, nr := range notReproduced {
		fmt.Printf("simdriver: %s\n", strings.SplitN(nr, "\n", 2)[0])
	}
	for i, rep := range orderFindings {
		reported++
		exit = 1
		violLines = append(violLines, fmt.Sprintf("VIOLATION property=%s replay=%s", prop, orderPaths[i]))
		violLines = append(violLines, fmt.Sprintf("  oracle=%s key=%s seed=%d run=%d tape_len=%d %s", rep.Oracle, rep.Key, *seed, rep.Run, len(rep.Tape), rep.Shrink))
		violLines = append(violLines, "  "+strings.ReplaceAll(sim.Clip(rep.Detail, 1500), "\n", "\n  "))
	}
	for _, l := range knownLines {
		fmt.Println(l)
	}
	for _, l := range violLines {
		fmt.Println(l)
	}
	wall := time.Since(start).Seconds()
	if agg.nontriv == 0 && exit == 0 {
		// a batch in which no run reached its oracle proves nothing: fail loudly (machinery trouble)
		// rather than report "held"
		fmt.Printf("simdriver: %s %s: none of %d runs was non-trivial (invalid=%d %v): the workload did not reach the oracle\n", prop, *tier, done, agg.invalid, agg.invalidBy)
		return 2
	}
	if !*noEvidence {
		writeEvidence(prop, cfg, *tier, *seed, agg, done, raceDone, wall, buildS, exploreS, reported, nw)
	}
	fmt.Printf("simdriver: %s %s: runs=%d race_runs=%d distinct_nontrivial=%d invalid=%d crashes=%d known=%d violations=%d wall=%.1fs (build %.1fs, explore %.1fs)\n",
		prop, *tier, done, raceDone, len(agg.sigs), agg.invalid, agg.crashes, agg.knownSeen, reported, wall, buildS, exploreS)
	return exit
}

// confirmAndMinimise shrinks the candidate's tape, replays the minimised tape
// in a fresh process and writes the replay file.
// timeAlone replays the candidate's tape twice in a fresh worker and returns the longer duration;
// ok is false when a replay did not complete cleanly.
func (r *runner) timeAlone(c *candidate) (time.Duration, bool) {
	bin := r.bin
	if c.race {
		bin = r.binRace
	}
	w, err := startWorker(bin, c.race, 0)
	if err != nil {
		return 0, false
	}
	defer w.stop()
	tape := c.tape
	if tape == nil {
		tape = rawStream(r.seed, r.cfg.Engine, r.prop, c.run, 1<<16)
	}
	var worst time.Duration
	for i := 0; i < 2; i++ {
		t0 := time.Now()
		resp, ci, e := w.do(r.replayRequest(tape, false), time.Duration(r.cfg.TimeoutS)*time.Second)
		if e != nil || ci != nil || resp == nil || resp.Error != "" {
			return 0, false
		}
		if d := time.Since(t0); d > worst {
			worst = d
		}
	}
	return worst, true
}

func (r *runner) confirmAndMinimise(c *candidate, tier string) (string, *replayFile, error) {
	bin := r.bin
	if c.race {
		bin = r.binRace
	}
	w, err := startWorker(bin, c.race, 0)
	if err != nil {
		return "", nil, err
	}
	defer w.stop()
	tape := c.tape
	if tape == nil && c.race && c.v.Oracle == "race" {
		// the -race worker died at the report and never told which part of its stream it had used. The
		// schedule is a function of the tape alone, so the plain worker makes the same choices (and
		// survives): its canonical tape is the used prefix, a far better start for minimisation than
		// the raw 65536-value stream
		if pw, err := startWorker(r.bin, false, 0); err == nil {
			if resp, ci, e := pw.do(r.request(c.run), time.Duration(r.cfg.TimeoutS)*time.Second); e == nil && ci == nil && resp != nil && resp.Result != nil && len(resp.Result.Tape) > 0 {
				tape = resp.Result.Tape
			}
			pw.stop()
		}
	}
	if tape == nil {
		tape = rawStream(r.seed, r.cfg.Engine, r.prop, c.run, 1<<16)
	}
	sh := &shrinker{r: r, w: w, oracle: c.v.Oracle, key: c.v.Key, budget: 2000, deadline: time.Now().Add(60 * time.Second)}
	if tier == "thorough" {
		sh.budget, sh.deadline = 6000, time.Now().Add(180*time.Second)
	}
	if c.v.Oracle == "liveness" {
		sh.budget = 1 // every replay of a hang costs a full watchdog period
	} else if c.tape == nil {
		// the worker dies on every failing candidate and must be restarted
		sh.budget, sh.deadline = 160, time.Now().Add(45*time.Second)
	}
	// the un-shrunk tape must reproduce first (fresh process). The schedule is a function of the
	// tape; whether ThreadSanitizer still holds the earlier access when the later one executes is
	// not (its shadow cells keep four accesses per word and evict at random), so a race finding
	// gets a few attempts - a finding that never reproduces is reported as machinery trouble.
	attempts := 2
	if c.v.Oracle == "race" {
		attempts = 15
	}
	ok := false
	for i := 0; i < attempts && !ok; i++ {
		sh.budget++
		ok = sh.test(tape)
	}
	if !ok {
		return "", nil, fmt.Errorf("tape of run %d does not reproduce (oracle=%s key=%s); the replay showed: %s", c.run, c.v.Oracle, c.v.Key, sh.lastSeen)
	}
	origLen := len(sh.best)
	sh.run()
	// fresh-process replay of the minimised tape
	w2, err := startWorker(bin, c.race, 0)
	if err != nil {
		return "", nil, err
	}
	defer w2.stop()
	var v *sim.Violation
	var res *sim.Result
	for i := 0; i < attempts && v == nil; i++ {
		vs, r2, err := r.evalTape(w2, sh.best, true)
		if err != nil {
			return "", nil, err
		}
		res = r2
		v = hasViolation(vs, c.v.Oracle, c.v.Key)
	}
	if v == nil {
		return "", nil, fmt.Errorf("minimised tape does not reproduce in a fresh process")
	}
	rep := &replayFile{Property: r.prop, Engine: r.cfg.Engine, Tier: tier, Seed: r.seed, Run: c.run, Race: c.race,
		Oracle: v.Oracle, Key: v.Key, Detail: v.Detail, Tape: sh.best,
		Shrink: fmt.Sprintf("(minimised %d->%d choices in %d replays)", origLen, len(sh.best), sh.tries)}
	if res != nil {
		rep.Sample, rep.Scenario, rep.Log = res.Sample, res.Scenario, res.Log
	}
	dir := filepath.Join(verifDir, "replays")
	os.MkdirAll(dir, 0o755)
	name := fmt.Sprintf("%s-%s-seed%d-run%d.json", r.prop, sanitize(v.Oracle+"-"+v.Key), r.seed, c.run)
	path := filepath.Join(dir, name)
	b, _ := json.MarshalIndent(rep, "", " ")
	if err := os.WriteFile(path, b, 0o644); err != nil {
		return "", nil, err
	}
	return path, rep, nil
}

func sanitize(s string) string {
	var b strings.Builder
	for _, c := range s {
		switch {
		case c >= 'a' && c <= 'z', c >= 'A' && c <= 'Z', c >= '0' && c <= '9', c == '-', c == '_', c == '.':
			b.WriteRune(c)
		default:
			b.WriteByte('_')
		}
	}
	out := b.String()
	if len(out) > 80 {
		out = out[:80]
	}
	return out
}

func envOr(k, d string) string {
	if v := os.Getenv(k); v != "" {
		return v
	}
	return d
}

func envInt(k string, d int64) int64 {
	if v := os.Getenv(k); v != "" {
		if n, err := strconv.ParseInt(v, 10, 64); err == nil {
			return n
		}
	}
	return d
}

// ---------------------------------------------------------------- replay

func cmdReplay(args []string) int {
	if len(args) < 1 {
		fatal2("replay: file required")
	}
	b, err := os.ReadFile(args[0])
	if err != nil {
		fatal2("%v", err)
	}
	var rep replayFile
	if err := json.Unmarshal(b, &rep); err != nil {
		fatal2("%v", err)
	}
	cfg, ok := props[rep.Property]
	if !ok {
		fatal2("unknown property %s", rep.Property)
	}
	r := &runner{cfg: cfg, prop: rep.Property, tier: rep.Tier, seed: rep.Seed}
	bin, err := buildWorker(rep.Race)
	if err != nil {
		fatal2("%v", err)
	}
	r.bin, r.binRace = bin, bin
	w, err := startWorker(bin, rep.Race, 0)
	if err != nil {
		fatal2("%v", err)
	}
	defer w.stop()
	if rep.Oracle == "order-independence" {
		_, alone, e1 := r.evalAfter(bin, false, nil, rep.Tape, true)
		_, after, e2 := r.evalAfter(bin, false, rep.Prelude, rep.Tape, true)
		if e1 != nil || e2 != nil || alone == nil || after == nil {
			fatal2("replay failed: %v %v", e1, e2)
		}
		fmt.Printf("case:\n%s\nalone:              event_hash=%s\nafter %d earlier runs: event_hash=%s\n", alone.Sample, alone.EventHash, len(rep.Prelude), after.EventHash)
		if alone.EventHash != after.EventHash {
			fmt.Printf("reproduced: oracle=%s key=%s\n%s\n", rep.Oracle, rep.Key, rep.Detail)
			fmt.Printf("VIOLATION property=%s replay=%s\n", rep.Property, args[0])
			return 1
		}
		fmt.Printf("not reproduced: the run behaves the same alone and after its prelude on this tree\n")
		return 0
	}
	for _, p := range rep.Prelude {
		if _, _, err := r.evalTape(w, p, false); err != nil {
			fatal2("prelude: %v", err)
		}
	}
	vs, res, err := r.evalTape(w, rep.Tape, true)
	if err != nil {
		fatal2("%v", err)
	}
	for i := 0; i < 3 && len(rep.Prelude) > 0 && hasViolation(vs, rep.Oracle, rep.Key) == nil; i++ {
		// state in a real sync.Pool is per-P and may be dropped by a GC cycle: a few attempts, each in a fresh process
		vs, res, err = r.evalAfter(bin, rep.Race, rep.Prelude, rep.Tape, true)
		if err != nil {
			fatal2("%v", err)
		}
	}
	for i := 0; i < 5 && rep.Oracle == "race" && hasViolation(vs, rep.Oracle, rep.Key) == nil; i++ {
		// race reports depend on ThreadSanitizer still holding the earlier access: a few attempts
		vs, res, err = r.evalTape(w, rep.Tape, true)
		if err != nil {
			fatal2("%v", err)
		}
	}
	if res != nil {
		fmt.Printf("case:\n%s\n", res.Sample)
		if len(args) > 1 && args[1] == "--log" {
			for _, l := range res.Log {
				fmt.Println("  ", l)
			}
		}
		fmt.Printf("event_hash=%s\n", res.EventHash)
	}
	if v := hasViolation(vs, rep.Oracle, rep.Key); v != nil {
		fmt.Printf("reproduced: oracle=%s key=%s\n%s\n", v.Oracle, v.Key, v.Detail)
		fmt.Printf("VIOLATION property=%s replay=%s\n", rep.Property, args[0])
		return 1
	}
	if len(vs) > 0 {
		fmt.Printf("recorded finding (oracle=%s key=%s) did not reproduce, but the tape shows:\n", rep.Oracle, rep.Key)
		for _, v := range vs {
			fmt.Printf("  oracle=%s key=%s\n  %s\n", v.Oracle, v.Key, v.Detail)
		}
		known := loadKnown()
		allKnown := true
		for _, v := range vs {
			if known.match(rep.Property, v) == nil {
				allKnown = false
			}
		}
		if !allKnown {
			fmt.Printf("VIOLATION property=%s replay=%s\n", rep.Property, args[0])
			return 1
		}
		return 0
	}
	fmt.Printf("not reproduced: the tape runs clean on this tree (oracle=%s key=%s)\n", rep.Oracle, rep.Key)
	return 0
}
