package gen

import (
	"fmt"
	"sort"
	"strings"

	"verif/sim"
)

// Kind is the loose static type of the context '.' the generator tracks so
// that programs are valid unless a failure is being planted.
type Kind int

const (
	KAny Kind = iota // unknown: only {{.}} is allowed
	KRoot
	KItem
	KStr
	KInt
)

// Options are the per-run (swarm) feature switches and sizes.
type Options struct {
	Probes      bool // emit fail(k) probe calls (fault points)
	ProbeExpr   bool // also inside expressions (yield params, contexts, operands)
	Try         bool
	Blocks      bool
	Include     bool
	Exec        bool
	Extends     bool
	Import      bool
	Range       bool
	If          bool
	Vars        bool
	Dump        bool
	Trim        bool
	Comments    bool
	MaxStmts    int
	MaxDepth    int
	MapRange    bool // range over the single-entry map
	StateProbes bool // sprinkle state probes ({{.}}, isset, yield content)
	Sites       bool // C12: probe statements are {{mark(K)}} site placeholders, only outside try; every file defines block zb
	Builtins    bool // string built-ins, map()/slice() literals, more SafeWriters, includeIfExists, two-value lookups
	Callbacks   bool // use the custom Ranger / Renderer values (user callbacks that can fail)
	MultiLine   bool // actions may contain newlines (whitespace inside an action is free)
	TargetTry   bool // place exactly one instrumented try statement (C13); probes only inside its body
	Big         bool // sizes and counts beyond ordinary small examples: long texts, many declarations, deep nesting, many parameters
	CatchForm   int  // 0: no catch, 1: catch without variable, 2: catch with variable, 3: with variable and a return statement in the catch body
}

// SwarmOptions draws a feature subset; index 0 of every choice is the simplest.
func SwarmOptions(t *sim.Tape) Options {
	on := func(num, den int) bool { return t.Bool(num, den) }
	return Options{
		Probes: true, ProbeExpr: on(2, 3),
		Try: on(3, 4), Blocks: on(3, 4), Include: on(2, 3), Exec: on(1, 3), Extends: on(1, 2), Import: on(1, 2),
		Range: on(4, 5), If: on(3, 4), Vars: on(3, 4), Dump: on(1, 4), Trim: on(1, 4), Comments: on(1, 4),
		MaxStmts: t.Range(2, 6), MaxDepth: t.Range(1, 4), MapRange: on(1, 3), StateProbes: on(2, 3), MultiLine: on(1, 2), Callbacks: on(1, 2), Builtins: on(1, 2), Big: on(1, 6),
	}
}

// ProbeSite is the generator's record of one emitted probe call.
type ProbeSite struct {
	ID   int
	File string
	Line int
	Encl []string // enclosing constructs, outermost first
	Expr bool     // inside an expression rather than a statement of its own
}

type BlockInfo struct {
	Name   string
	Params []string
	Ctx    Kind // context kind its body assumes (KAny: whatever the caller has)
	File   string
	// YieldsContent: the body contains {{yield content}} (maybe below an if or a range)
	YieldsContent bool
}

type World struct {
	Files    map[string]string
	Order    []string // generation order of files
	Mains    []string // templates meant to be executed
	Probes   []ProbeSite
	VarNames []string // every variable name any template declares (for isset probes)
	Blocks   []BlockInfo
	Opts     Options
}

func (w *World) String() string {
	var b strings.Builder
	for _, p := range w.Order {
		fmt.Fprintf(&b, "--- %s\n%s\n", p, w.Files[p])
	}
	return b.String()
}

type scopeInfo struct {
	vars     []string // declared template variables visible here (all strings)
	ctx      Kind
	inBlock  bool // yield content is meaningful
	depth    int
	encl     []string
	noLocals bool // block bodies: may not use the definer's locals
	canRet   bool
	inTry    int
}

func (s scopeInfo) child(encl string) scopeInfo {
	c := s
	c.depth++
	c.vars = append([]string(nil), s.vars...)
	c.encl = append(append([]string(nil), s.encl...), encl)
	return c
}

type fileGen struct {
	role   string
	path   string
	b      strings.Builder
	line   int
	blocks []BlockInfo // blocks visible to this file's yields
}

type G struct {
	T             *sim.Tape
	O             Options
	W             *World
	nText         int
	nVar          int
	nBlk          int
	nTry          int  // try statements announced through marks
	nBig          int  // long literal texts emitted so far
	bigOK         bool // the statement being generated is rendered at most once per execution
	nYieldContent int
	f             *fileGen
	incs          []string // includable files (already generated)
	probesOn      bool
	budget        int // remaining statements in this world (bounds the cost of a run)
	targetPlaced  bool
	rets          []string // exec targets
}

func (g *G) emit(s string) {
	g.f.b.WriteString(s)
	g.f.line += strings.Count(s, "\n")
}

func (g *G) ld() string {
	if g.O.MultiLine && g.T.Choose(5) == 4 {
		return "{{\n\t"
	}
	if g.O.Trim && g.T.Choose(6) == 5 {
		return "{{- "
	}
	if g.T.Choose(3) == 2 {
		return "{{ "
	}
	return "{{"
}

func (g *G) rd() string {
	if g.O.MultiLine && g.T.Choose(5) == 4 {
		return "\n}}"
	}
	if g.O.Trim && g.T.Choose(6) == 5 {
		return " -}}"
	}
	return "}}"
}

func (g *G) act(s string) { g.emit(g.ld() + s + g.rd()) }

func (g *G) text() {
	g.nText++
	s := fmt.Sprintf("[%s%d]", fileTag(g.f.path), g.nText)
	switch g.T.Choose(5) {
	case 1:
		s += "\n"
	case 2:
		s = " " + s + " "
	case 3:
		s = "\n" + s + "\n\t"
	case 4:
		s += "<&>"
	}
	if g.O.Big && g.bigOK && g.nBig < 2 && g.T.Choose(3) == 0 {
		// a long literal text: beyond 512 bytes, beyond 4 KiB, rarely beyond 64 KiB. Only where it is
		// rendered once per execution (not below a range, in a block, in yielded content or in an included
		// file - nested yields and loops multiply it into gigabytes), and at most twice per world
		n := []int{600, 600, 5000, 5000, 5000, 70000}[g.T.Choose(6)]
		s += "[big" + strings.Repeat("z", n) + "]"
		g.nBig++
	}
	g.emit(s)
}

func fileTag(p string) string {
	p = strings.TrimSuffix(p, ".jet")
	p = strings.ReplaceAll(p, "/", "")
	return p
}

func (g *G) probeExpr(sc scopeInfo, inExpr bool) string {
	id := len(g.W.Probes) + 1
	g.W.Probes = append(g.W.Probes, ProbeSite{ID: id, File: g.f.path, Line: g.f.line + 1, Encl: sc.encl, Expr: inExpr})
	return fmt.Sprintf("fail(%d)", id)
}

// strExpr returns a string-valued expression valid in sc.
func (g *G) strExpr(sc scopeInfo, depth int) string {
	var alts []string
	alts = append(alts, `"lit"`, "s", `item.Name`, `names[0]`, `item.ExtraNote`, `root.MetaName`, `root.Col.Name`, `root.Col.Only`)
	if g.O.Builtins {
		// the same methods through a value and through a pointer (the method sets of T and *T differ)
		alts = append(alts, `item.Title()`, `item.Sub.Title()`, `item.Sub.PtrName()`, `root.Items[0].Title()`, `root.Col.Inner.Name`, `root.Col.Inner.Only`)
	}
	if !sc.noLocals {
		for _, v := range sc.vars {
			alts = append(alts, v)
		}
	}
	switch sc.ctx {
	case KRoot:
		alts = append(alts, ".Title", ".BaseName", ".Hello()", ".Items[0].Name", "root.First().Name", `.Names[0]`, ".MetaName")
	case KItem:
		alts = append(alts, ".Name", ".Title()", `.M["mk"]`, `.Tags[0]`, ".ExtraNote")
	case KStr:
		alts = append(alts, ".")
	}
	if depth < 2 {
		k := g.T.Choose(9)
		switch k {
		case 1:
			return "upper(" + g.strExpr(sc, depth+1) + ")"
		case 2:
			return g.strExpr(sc, depth+1) + ` + "+" + ` + g.strExpr(sc, depth+1)
		case 3, 4:
			return "(" + g.boolExpr(sc, depth+1) + " ? " + g.strExpr(sc, depth+1) + " : " + g.strExpr(sc, depth+1) + ")"
		case 5:
			if g.probesOn && g.O.ProbeExpr && !g.O.Sites {
				return g.probeExpr(sc, true)
			}
		case 6:
			return `repeat(` + g.strExpr(sc, depth+1) + `, 2)`
		case 7:
			if g.O.Builtins {
				x := g.strExpr(sc, depth+1)
				return []string{
					`replace(` + x + `, "l", "L", 1)`, `trimSpace(" " + ` + x + ` + " ")`, `html(` + x + `)`, `url(` + x + `)`,
					`split(` + x + `, "i")[0]`, `lower(` + x + `)`, `(hasPrefix(` + x + `, "l") ? "P" : "N")`, `(hasSuffix(` + x + `, "t") ? "S" : "N")`,
					`map("k", ` + x + `).k`, `slice(` + x + `, "z")[0]`, `(len(` + x + `) > 2 ? "long" : "short")`,
				}[g.T.Choose(11)]
			}
		}
	}
	return alts[g.T.Choose(len(alts))]
}

func (g *G) boolExpr(sc scopeInfo, depth int) string {
	alts := []string{"true", "false", "n > 1", `s == "sv"`, "isset(item.Sub)", "len(names) > 1", "not isset(nope)"}
	switch sc.ctx {
	case KRoot:
		alts = append(alts, ".Flag", ".Count > 2", "isset(.Nested)", ".Zero", ".Empty", ".NilP")
	case KItem:
		alts = append(alts, ".N > 1", "isset(.Sub)", `.Name == "sub"`)
	}
	if !sc.noLocals {
		for _, v := range sc.vars {
			alts = append(alts, "isset("+v+")")
		}
	}
	if g.O.Exec && g.O.Builtins && len(g.rets) > 0 {
		// isset() swallows whatever fails while its argument is evaluated - here a whole template run
		alts = append(alts, fmt.Sprintf("isset(exec(%q))", g.rets[g.T.Choose(len(g.rets))]))
	}
	if depth < 2 && g.T.Choose(5) == 4 {
		return g.boolExpr(sc, depth+1) + " && " + g.boolExpr(sc, depth+1)
	}
	return alts[g.T.Choose(len(alts))]
}

// ctxExpr returns an expression of the given kind usable anywhere.
func (g *G) ctxExpr(sc scopeInfo, k Kind) string {
	switch k {
	case KRoot:
		if sc.ctx == KRoot && g.T.Choose(2) == 1 {
			return "."
		}
		return "root"
	case KItem:
		alts := []string{"item", "root.Items[0]", "root.First()"}
		if sc.ctx == KRoot {
			alts = append(alts, ".Items[0]")
		}
		if sc.ctx == KItem {
			alts = append(alts, ".")
		}
		return alts[g.T.Choose(len(alts))]
	case KStr:
		return g.strExpr(sc, 1)
	case KInt:
		return "n"
	}
	return "item"
}

func (g *G) newVar() string {
	g.nVar++
	v := fmt.Sprintf("v%d", g.nVar)
	g.W.VarNames = append(g.W.VarNames, v)
	return v
}

// list emits a statement list.
func (g *G) list(sc scopeInfo, max int) {
	n := g.T.Range(1, max)
	sc.vars = append([]string(nil), sc.vars...)
	for i := 0; i < n; i++ {
		g.stmt(&sc)
	}
}

func (g *G) stmt(sc *scopeInfo) {
	o := g.O
	g.budget--
	deep := sc.depth >= o.MaxDepth || g.budget <= 0
	w := func(on bool, wt int) int {
		if on {
			return wt
		}
		return 0
	}
	inTarget := false
	g.bigOK = g.f.role == "main" || g.f.role == "main-target" || g.f.role == "base" || g.f.role == "child"
	for _, e := range sc.encl {
		if e == "TARGET" {
			inTarget = true
		}
		switch e {
		case "if", "if-let", "try", "catch", "TARGET", "deep":
		default:
			g.bigOK = false
		}
	}
	yieldWt := 3
	if inTarget {
		yieldWt = 7 // failures below a yield (block body, yielded content) are the deep unwinding cases
	}
	k := g.T.Weighted(
		4,                // 0 text
		3,                // 1 print expr
		w(g.probesOn, 3), // 2 probe statement
		w(o.Vars, 2),     // 3 let
		w(o.Vars && len(sc.vars) > 0 && !sc.noLocals && !o.TargetTry, 1), // 4 set (not in C13 worlds: a body that reaches an assignment only when it does not fail is a legitimate difference)
		w(o.If && !deep, 2),    // 5 if
		w(o.Range && !deep, 3), // 6 range
		w(o.Blocks && !deep && sc.depth == 0 && !sc.noLocals, 2), // 7 block definition (top level of a file only)
		w(o.Blocks && !deep && len(g.f.blocks) > 0, yieldWt),     // 8 yield
		w(sc.inBlock, 3), // 9 yield content
		w(o.Include && !deep && len(g.incs) > 0, 2), // 10 include
		w(o.Try && !deep, 3),                        // 11 try
		w(o.Exec && len(g.rets) > 0, 1),             // 12 exec
		w(o.StateProbes, 2),                         // 13 state probe
		w(o.Comments, 1),                            // 14 comment
		w(sc.canRet, 1),                             // 15 return
		w(o.Dump, 1),                                // 16 dump
		w(o.TargetTry && !g.targetPlaced && sc.inTry == 0 && !sc.canRet && sc.depth > 0, 3), // 17 the instrumented try
		w(o.Callbacks && !o.TargetTry, 1),   // 18 a function that declares a template-global through the Runtime API
		w(o.Big && o.Vars, 1),               // 19 many declarations in one list
		w(o.Big && o.If && g.budget > 0, 1), // 20 a deep chain of nested statements (beyond MaxDepth)
	)
	switch k {
	case 0:
		g.text()
	case 1:
		switch g.T.Choose(4) {
		case 0:
			g.act(g.strExpr(*sc, 0))
		case 1:
			g.act(g.boolExpr(*sc, 0))
		case 2:
			g.act(".")
		case 3:
			pipes := []string{" | raw", " | lower", " | upper | lower", " | repeat: 2"}
			if g.O.Builtins {
				pipes = append(pipes, " | unsafe", " | safeHtml", " | safeJs", " | html | raw", " | len", " | replace: \"l\", \"L\", 1", " | hasPrefix(\"lit\", _)")
			}
			g.act(g.strExpr(*sc, 0) + pipes[g.T.Choose(len(pipes))])
		}
		if g.O.Callbacks && g.T.Choose(6) == 5 {
			g.act("rnd") // a Renderer: renders itself, and is a fault point
		}
	case 2:
		if g.O.Sites {
			if sc.inTry == 0 {
				id := len(g.W.Probes) + 1
				g.W.Probes = append(g.W.Probes, ProbeSite{ID: id, File: g.f.path, Line: g.f.line + 1, Encl: sc.encl})
				g.emit(SitePlaceholder(id))
			} else {
				g.text()
			}
		} else {
			g.act(g.probeExpr(*sc, false))
		}
	case 3:
		v := g.newVar()
		switch {
		case g.O.Builtins && g.T.Choose(5) == 4:
			// two-value map lookup: the second variable is a bool
			ok := g.newVar()
			g.act(v + ", " + ok + ` := item.M["` + []string{"mk", "absent"}[g.T.Choose(2)] + `"]`)
			g.act(ok)
			g.act("isset(" + v + ")")
			v = ""
		case g.O.Builtins && g.T.Choose(5) == 4:
			// multi-assignment with a discard
			g.act(v + ", _ := " + g.strExpr(*sc, 0) + ", " + g.strExpr(*sc, 1))
		default:
			g.act(v + " := " + g.strExpr(*sc, 0))
		}
		if v != "" {
			sc.vars = append(sc.vars, v)
		}
	case 4:
		v := sc.vars[g.T.Choose(len(sc.vars))]
		// the right side never reads a template variable: `v = v + v` (or two variables feeding each
		// other) below nested ranges doubles a string per iteration - gigabytes within seconds
		if !sc.noLocals && g.T.Choose(2) == 1 {
			// a plain copy (or a length-preserving function) of a variable cannot grow
			w := sc.vars[g.T.Choose(len(sc.vars))]
			g.act(v + " = " + []string{w, "upper(" + w + ")", "lower(" + w + ")"}[g.T.Choose(3)])
			break
		}
		rhs := *sc
		rhs.vars = nil
		g.act(v + " = " + g.strExpr(rhs, 0))
	case 5:
		g.ifStmt(*sc)
	case 6:
		g.rangeStmt(*sc)
	case 7:
		g.blockDef(*sc)
	case 8:
		g.yieldStmt(*sc, g.probesOn && g.T.Choose(4) == 0)
	case 9:
		g.nYieldContent++
		if g.O.Vars && g.T.Choose(2) == 1 {
			// a declaration in the list that yields the content: its scope is open (and its release
			// pending) while the caller's content runs
			v := g.newVar()
			g.act(v + " := " + g.strExpr(*sc, 1))
			sc.vars = append(sc.vars, v)
		}
		if g.T.Choose(3) == 2 {
			g.act("yield content " + g.ctxExpr(*sc, KItem))
		} else {
			g.act("yield content")
		}
	case 10:
		g.includeStmt(*sc)
		if g.O.Blocks && g.f.role == "inc" && g.T.Choose(3) == 2 {
			g.act("yield shared()")
		}
	case 11:
		g.tryStmt(*sc)
	case 12:
		r := g.rets[g.T.Choose(len(g.rets))]
		if g.O.Builtins && g.T.Choose(4) == 3 {
			// a safe-writer command with several values, one of which renders another template (which may
			// use safe writers of its own) while the command is being evaluated
			w := []string{"raw", "unsafe", "safeHtml"}[g.T.Choose(3)]
			g.act(fmt.Sprintf(`%s: %s, exec(%q, %s), %s`, w, g.strExpr(*sc, 1), r, g.ctxExpr(*sc, KItem), g.strExpr(*sc, 1)))
			break
		}
		if g.T.Choose(2) == 1 {
			g.act(fmt.Sprintf(`exec(%q, %s)`, r, g.ctxExpr(*sc, KItem)))
		} else {
			g.act(fmt.Sprintf(`exec(%q)`, r))
		}
	case 13:
		g.stateProbe(*sc)
	case 14:
		g.emit("{* c *}")
	case 15:
		g.act("return " + g.strExpr(*sc, 1))
	case 16:
		g.act("dump(9)")
	case 17:
		g.targetTry(*sc)
	case 19:
		n := g.T.Range(10, 24)
		var last string
		for i := 0; i < n; i++ {
			last = g.newVar()
			g.act(last + " := " + g.strExpr(*sc, 2))
			sc.vars = append(sc.vars, last)
		}
		g.act(last)
		g.act(sc.vars[len(sc.vars)-n])
	case 20:
		n := g.T.Range(6, 12)
		in := *sc
		var closers []string
		for i := 0; i < n; i++ {
			switch k := g.T.Choose(3); {
			case k == 1 && o.Try:
				in = in.child("try")
				in.inTry++
				mo, _, mc := g.tryMarks()
				g.act("try")
				g.emit(mo)
				closers = append(closers, mc)
			case k == 2 && o.Vars:
				in = in.child("if-let")
				v := g.newVar()
				g.act("if " + v + ` := "d"; true`)
				in.vars = append(in.vars, v)
				closers = append(closers, "")
			default:
				in = in.child("if")
				g.act("if true")
				closers = append(closers, "")
			}
		}
		in.depth = o.MaxDepth + 1 // nothing nests further below the chain
		g.list(in, 2)
		for i := n - 1; i >= 0; i-- {
			g.act("end")
			g.emit(closers[i])
		}
	case 18:
		g.nVar++
		name := fmt.Sprintf("zq%d", g.nVar)
		g.W.VarNames = append(g.W.VarNames, name)
		g.act(fmt.Sprintf("letg(%q, %s)", name, g.strExpr(*sc, 1)))
		g.act("isset(" + name + ")")
	}
}

// stateProbe prints interpreter state: context, variables, content.
func (g *G) stateProbe(sc scopeInfo) {
	switch g.T.Choose(4) {
	case 0:
		g.emit("<ctx:")
		g.act(".")
		g.emit(">")
	case 1:
		g.emit("<set:")
		for i := 1; i <= g.nVar && i <= 6; i++ {
			g.act(fmt.Sprintf("isset(v%d)", i))
		}
		g.act("isset(e)")
		g.emit(">")
	case 2:
		g.emit("<content:")
		g.act("yield content")
		g.emit(">")
	case 3:
		g.emit("<vars:")
		g.act("s")
		g.act("n")
		g.emit(">")
	}
}

func (g *G) ifStmt(sc scopeInfo) {
	in := sc.child("if")
	if g.O.Vars && g.T.Choose(3) == 2 {
		v := g.newVar()
		g.act("if " + v + " := " + g.strExpr(sc, 1) + "; " + g.boolExpr(sc, 0))
		in.vars = append(in.vars, v)
		in.encl[len(in.encl)-1] = "if-let"
	} else {
		g.act("if " + g.boolExpr(sc, 0))
	}
	g.list(in, g.O.MaxStmts-1)
	switch g.T.Choose(3) {
	case 1:
		g.act("else")
		g.list(in, 2)
	case 2:
		g.act("else if " + g.boolExpr(in, 0))
		g.list(in, 2)
		g.act("else")
		g.list(in, 2)
	}
	g.act("end")
}

func (g *G) rangeStmt(sc scopeInfo) {
	in := sc.child("range")
	// subject
	type subj struct {
		expr string
		elem Kind
	}
	subs := []subj{{"names", KStr}, {"root.Items", KItem}, {"ints(0, 2)", KInt}, {"item.Tags", KStr}, {"root.NoNames", KStr}, {"none", KStr}}
	if g.O.Callbacks && !g.O.TargetTry {
		// custom Ranger whose Range() is a fault point. Not in C13 worlds: it is stateful (a body
		// that fails half-way leaves it half-consumed, and a later range over it legitimately differs)
		subs = append(subs, subj{"rng", KStr})
	}
	if sc.ctx == KRoot {
		subs = append(subs, subj{".Items", KItem}, subj{".Names", KStr})
	}
	if sc.ctx == KItem {
		subs = append(subs, subj{".Tags", KStr})
	}
	if g.O.MapRange {
		subs = append(subs, subj{"root.One", KInt}, subj{"root.Three", KStr}, subj{"root.NoMap", KStr})
	}
	s := subs[g.T.Choose(len(subs))]
	form := g.T.Choose(4)
	if s.expr == "root.Three" {
		form = 0 // the key of a multi-entry map is never bound to a name, not even to '_': dump() and the
		// "identifier not available in current (map[...])" error text print the scope, and the order of a
		// map's entries is free
	}
	switch form {
	case 0:
		g.act("range " + s.expr)
		in.ctx = s.elem
	case 1:
		i := g.newVar()
		g.act("range " + i + " := " + s.expr)
		in.ctx = s.elem
	case 2:
		i, v := g.newVar(), g.newVar()
		g.act("range " + i + ", " + v + " := " + s.expr)
		if s.elem == KStr {
			in.vars = append(in.vars, v)
		}
	case 3:
		g.act("range _, " + g.newVarDiscard(&in, s.elem) + " := " + s.expr)
	}
	g.list(in, g.O.MaxStmts-1)
	if g.T.Choose(3) == 2 {
		g.act("else")
		g.list(sc.child("range-else"), 2)
	}
	g.act("end")
}

func (g *G) newVarDiscard(in *scopeInfo, elem Kind) string {
	v := g.newVar()
	if elem == KStr {
		in.vars = append(in.vars, v)
	}
	return v
}

func (g *G) blockDef(sc scopeInfo) {
	g.nBlk++
	name := fmt.Sprintf("b%s%d", fileTag(g.f.path), g.nBlk)
	bi := BlockInfo{Name: name, File: g.f.path}
	np := g.T.Choose(3)
	if g.O.Big && g.T.Choose(3) == 0 {
		np = g.T.Range(5, 12)
	}
	hdr := "block " + name + "("
	for i := 0; i < np; i++ {
		p := fmt.Sprintf("p%d", i)
		bi.Params = append(bi.Params, p)
		if i > 0 {
			hdr += ", "
		}
		hdr += p
		// a parameter without a default makes the in-place rendering of the definition fail
		// ("missing name for block parameter"), so defaults are always given
		hdr += "=" + g.strExpr(scopeInfo{ctx: KAny, noLocals: true}, 1)
	}
	hdr += ")"
	in := sc.child("block")
	in.noLocals = true
	in.vars = nil
	in.inBlock = true
	in.ctx = KAny
	if g.T.Choose(2) == 1 {
		bi.Ctx = KItem
		hdr += " " + g.ctxExpr(sc, KItem)
		in.ctx = KItem
	}
	// register before generating the body so the body may yield itself? no: avoid recursion
	g.act(hdr)
	for _, p := range bi.Params {
		g.act(p)
	}
	nyc := g.nYieldContent
	g.list(in, g.O.MaxStmts-1)
	bi.YieldsContent = g.nYieldContent > nyc
	if g.T.Choose(2) == 1 {
		g.act("content")
		dc := sc.child("block-default-content")
		dc.noLocals = true
		dc.vars = nil
		dc.ctx = KAny
		g.list(dc, 2)
	}
	g.act("end")
	g.f.blocks = append(g.f.blocks, bi)
	g.W.Blocks = append(g.W.Blocks, bi)
}

// yieldStmt yields one of the visible blocks. deep: prefer a block that renders its caller's content,
// pass content, and put a fault point first in it (the failure then unwinds through the content
// closure, the block body and the yield statement).
func (g *G) yieldStmt(sc scopeInfo, deep bool) {
	bi := g.f.blocks[g.T.Choose(len(g.f.blocks))]
	if deep {
		var yc []BlockInfo
		for _, b := range g.f.blocks {
			if b.YieldsContent {
				yc = append(yc, b)
			}
		}
		if len(yc) > 0 {
			bi = yc[g.T.Choose(len(yc))]
		}
	}
	s := "yield " + bi.Name + "("
	// named arguments in shuffled order, some omitted
	idx := make([]int, len(bi.Params))
	for i := range idx {
		idx[i] = i
	}
	for i := len(idx) - 1; i > 0; i-- {
		j := g.T.Choose(i + 1)
		idx[i], idx[j] = idx[j], idx[i]
	}
	first := true
	for _, i := range idx {
		if g.T.Choose(3) == 2 {
			continue
		}
		if !first {
			s += ", "
		}
		first = false
		s += bi.Params[i] + "=" + g.strExpr(sc, 1)
	}
	if g.O.Builtins && g.T.Choose(6) == 5 {
		// an argument without a name (legal: it is evaluated and bound to no parameter); it must not
		// start with an identifier, which would read as a parameter name
		if !first {
			s += ", "
		}
		s += `"u" + ` + g.strExpr(sc, 1)
	}
	s += ")"
	if bi.Ctx != KAny || g.T.Choose(3) == 2 {
		k := bi.Ctx
		if k == KAny {
			k = KItem
		}
		s += " " + g.ctxExpr(sc, k)
	}
	withContent := g.T.Choose(2) == 1
	if deep || (g.O.TargetTry && sc.inTry > 0 && g.T.Choose(2) == 1) {
		withContent = true
	}
	if withContent {
		g.act(s + " content")
		in := sc.child("yield-content")
		in.ctx = KAny
		in.inBlock = sc.inBlock
		if deep && g.probesOn {
			g.act(g.probeExpr(in, false))
		}
		g.list(in, g.O.MaxStmts-1)
		g.act("end")
	} else {
		g.act(s)
	}
}

func (g *G) includeStmt(sc scopeInfo) {
	p := g.incs[g.T.Choose(len(g.incs))]
	if g.O.Builtins && g.T.Choose(4) == 3 {
		// includeIfExists resolves against the root; a missing target renders nothing
		target := []string{p, p, "/zz/absent.jet"}[g.T.Choose(3)]
		if g.T.Choose(2) == 1 {
			g.act(fmt.Sprintf("includeIfExists(%q, %s)", target, g.ctxExpr(sc, KItem)))
		} else {
			g.act(fmt.Sprintf("if includeIfExists(%q, %s)", target, g.ctxExpr(sc, KItem)))
			g.text()
			g.act("end")
		}
		return
	}
	name := p
	// relative spelling when the includer is in the same directory tree
	if g.T.Choose(3) == 2 {
		name = relName(g.f.path, p)
	}
	g.act(fmt.Sprintf("include %q %s", name, g.ctxExpr(sc, KItem)))
}

func relName(from, to string) string {
	fd := from[:strings.LastIndex(from, "/")+1]
	if strings.HasPrefix(to, fd) {
		return "./" + to[len(fd):]
	}
	ups := strings.Count(fd, "/") - 1
	return strings.Repeat("../", ups) + strings.TrimPrefix(to, "/")
}

// tryMarks: in worlds with failure sites every try statement announces the dynamic extent of its body
// through marks (first statement of the body; first statement of the catch body; the statement after
// {{end}}), so that "was this call made inside a try body?" can be read off the
// sequence of probe calls instead of off the Runtime under test.
func (g *G) tryMarks() (open, caught, over string) {
	if !g.O.Sites {
		return "", "", ""
	}
	g.nTry++
	k := MarkTryOpen + 3*g.nTry
	return fmt.Sprintf("{{mark(%d)}}", k), fmt.Sprintf("{{mark(%d)}}", k+1), fmt.Sprintf("{{mark(%d)}}", k+2)
}

func (g *G) tryStmt(sc scopeInfo) {
	in := sc.child("try")
	in.inTry++
	mOpen, mCaught, mOver := g.tryMarks()
	g.act("try")
	g.emit(mOpen)
	g.list(in, g.O.MaxStmts-1)
	// C12 worlds: some try bodies really fail (and are caught), so that their catch bodies run and
	// can hold failure sites - a catch body is outside the try it belongs to
	failsForReal := g.O.Sites && g.T.Choose(2) == 1
	if failsForReal {
		g.act("zzNopeInsideTry")
	}
	cb := sc.child("catch")
	switch g.T.Choose(3) {
	case 1:
		g.act("catch")
		g.emit(mCaught)
		g.text()
		g.catchProbe(cb)
	case 2:
		g.act("catch e")
		g.emit(mCaught)
		g.text()
		g.act("e.Error()")
		g.catchProbe(cb)
	}
	g.act("end")
	g.emit(mOver)
}

// catchProbe: a catch body may itself fail (a second fault in the same execution).
func (g *G) catchProbe(sc scopeInfo) {
	if g.O.Sites {
		if sc.inTry == 0 && g.T.Choose(2) == 1 {
			id := len(g.W.Probes) + 1
			g.W.Probes = append(g.W.Probes, ProbeSite{ID: id, File: g.f.path, Line: g.f.line + 1, Encl: sc.encl})
			g.emit(SitePlaceholder(id))
		}
		return
	}
	if g.probesOn && g.T.Choose(2) == 1 {
		g.act(g.probeExpr(sc, false))
		g.text()
	}
}

// SitePlaceholder is the exact text of failure-site K in Sites mode (C12); it
// never spans lines, so replacing it keeps every line number.
func SitePlaceholder(id int) string { return fmt.Sprintf("{{mark(%d)}}", id) }

// ZBlock is defined at the top of every file in Sites mode.
const ZBlock = `{{block zb(p="d")}}{{end}}`

// Mark ids of the instrumented try statement (C13).
const (
	MarkTryBegin = 9001
	MarkTryEnd   = 9002
	MarkTryBody  = 9003 // first statement of the body: identifies the statement's own buffer
	MarkRoot     = 9000 // first statement of every root template: the top-level writer baseline
	MarkTryOpen  = 8000 // 8000+3k: first statement of the body of try statement k; +1: its catch body begins; +2: the statement is over (k < 300)
	MarkExecOpen = 7000 // first statement of a template that is run through exec(); 7001: its last
	SetToken     = "@@SET@@"
)

// TargetOpen/TargetClose are the exact wrapper strings; removing them gives
// the twin program in which the body renders outside try.
const TargetOpen = "{{mark(9001)}}{{try}}{{mark(9003)}}"

func TargetClose(form int) string {
	switch form {
	case 1:
		return "{{catch}}[CATCH]<cc:{{.}}>{{end}}{{mark(9002)}}"
	case 2:
		return "{{catch e}}[CATCH]{{e.Error()}}<cc:{{.}}>{{end}}{{mark(9002)}}"
	case 4:
		// a catch clause that names a variable and has a completely empty body
		return "{{catch e}}{{end}}{{mark(9002)}}"
	case 3:
		// the catch body sets the template's return value (which, as documented, does not stop the
		// rendering); the empty if statement behind the try statement drops that value again, so that
		// enclosing and following range statements - which stop at a return value - run as in the twin
		return "{{catch e}}[CATCH]{{e.Error()}}<cc:{{.}}>{{return \"rv\"}}{{end}}{{if true}}{{end}}{{mark(9002)}}"
	}
	return "{{end}}{{mark(9002)}}"
}

// targetTry emits the instrumented try: mark, try, BODY with probes, catch,
// mark, then state probes of everything the statement must leave untouched.
func (g *G) targetTry(sc scopeInfo) {
	g.targetPlaced = true
	// sometimes a variable named like the catch variable is declared right before the statement (with a
	// value, or holding nil): it must be what it was afterwards
	outerE := g.T.Choose(6)
	switch outerE {
	case 4:
		g.act(`e := "outer-e"`)
	case 5:
		g.act(`e := nil`)
	}
	g.emit(TargetOpen)
	in := sc.child("TARGET")
	in.inTry++
	in.vars = nil // the body only declares its own variables (roll-back of outer assignments is not demanded)
	g.probesOn = true
	if g.O.Blocks && len(g.f.blocks) > 0 && g.T.Choose(3) == 0 {
		g.yieldStmt(in, true)
	}
	g.list(in, g.O.MaxStmts)
	// make sure the body has at least one fault point
	g.act(g.probeExpr(in, false))
	g.probesOn = false
	g.emit(TargetClose(g.O.CatchForm))
	g.emit("<ctx:{{.}}><set:" + SetToken + "><content:{{yield content}}><vars:{{s}}{{n}}>")
	switch outerE {
	case 4:
		g.emit("<outer-e:{{e}}>")
	case 5:
		g.emit(`<outer-e:{{e = "assigned-after"}}{{e}}>`)
	}
}

// file generates one file with the given role.
func (g *G) file(path, role string, extends string, imports []string, visible []BlockInfo) {
	g.f = &fileGen{path: path, role: role, blocks: append([]BlockInfo(nil), visible...)}
	g.W.Order = append(g.W.Order, path)
	if extends != "" {
		g.act(fmt.Sprintf("extends %q", extends))
		g.emit("\n")
	}
	for _, im := range imports {
		g.act(fmt.Sprintf("import %q", im))
		g.emit("\n")
	}
	if g.O.Sites {
		g.emit(ZBlock + "\n")
	}
	if (g.O.Sites || g.O.TargetTry) && (role == "main" || role == "base" || role == "main-target") {
		g.emit("{{mark(9000)}}")
	}
	// every root template provides its own definition of block "shared"; included files yield it
	// without defining it (resolved through the includer's scope at run time)
	if g.O.Blocks && g.O.Include && (role == "main" || role == "base" || role == "main-target") && (g.O.Sites || g.O.TargetTry || g.T.Choose(4) > 0) {
		// (one root template in four defines no block of its own at this point: a template without
		// blocks takes the block tables of what it imports and extends)
		g.emit(fmt.Sprintf("{{block shared()}}[shared:%s]{{end}}", fileTag(path)))
	}
	sc := scopeInfo{ctx: KRoot}
	switch role {
	case "main", "base":
		g.list(sc, g.O.MaxStmts)
	case "main-target":
		g.list(sc, g.O.MaxStmts)
		if !g.targetPlaced {
			g.targetTry(sc)
			g.list(sc, 2)
		}
	case "child":
		// an extending template: only its block definitions matter
		n := g.T.Range(1, 2)
		for i := 0; i < n; i++ {
			g.text() // discarded text
			g.blockDefNamed(sc, visible)
		}
	case "lib":
		n := g.T.Range(1, 2)
		for i := 0; i < n; i++ {
			g.blockDef(sc)
			g.emit("\n")
		}
	case "inc":
		sc.ctx = KItem
		sc.depth = 1
		g.list(sc, g.O.MaxStmts-1)
		if g.O.Blocks && g.T.Choose(2) == 1 {
			g.act("yield shared()") // defined by whoever includes this file
		}
	case "ret":
		sc.ctx = KAny
		sc.depth = 1
		sc.canRet = true
		if g.O.Sites {
			g.emit(fmt.Sprintf("{{mark(%d)}}", MarkExecOpen))
		}
		g.list(sc, 3)
		if g.O.Sites {
			g.emit(fmt.Sprintf("{{mark(%d)}}", MarkExecOpen+1))
		}
		g.act("return " + g.strExpr(sc, 1))
	}
	g.W.Files[path] = g.f.b.String()
}

// blockDefNamed overrides one of the visible (base) blocks.
func (g *G) blockDefNamed(sc scopeInfo, visible []BlockInfo) {
	if len(visible) == 0 {
		g.blockDef(sc)
		return
	}
	bi := visible[g.T.Choose(len(visible))]
	hdr := "block " + bi.Name + "("
	for i, p := range bi.Params {
		if i > 0 {
			hdr += ", "
		}
		hdr += p + `="d"`
	}
	hdr += ")"
	in := sc.child("block")
	in.noLocals, in.vars, in.inBlock, in.ctx = true, nil, true, bi.Ctx
	if bi.Ctx == KItem {
		hdr += " " + g.ctxExpr(sc, KItem)
	}
	g.act(hdr)
	// the override may only yield blocks that precede the overridden one (and
	// whose bodies therefore cannot yield it back): no recursion by construction
	saved := g.f.blocks
	var prec []BlockInfo
	for _, b := range visible {
		if b.Name == bi.Name {
			break
		}
		prec = append(prec, b)
	}
	g.f.blocks = prec
	g.list(in, g.O.MaxStmts-1)
	g.f.blocks = saved
	g.act("end")
}

// GenWorld builds a world of 1-6 files.
func GenWorld(t *sim.Tape, o Options) *World {
	w := &World{Files: map[string]string{}, Opts: o}
	g := &G{T: t, O: o, W: w, probesOn: o.Probes && !o.TargetTry, budget: 30 + 10*t.Choose(4)}
	// leaves first: exec targets, includes, lib, base, then mains
	if o.Exec {
		g.file("/ret0.jet", "ret", "", nil, nil)
		g.rets = append(g.rets, "/ret0.jet")
	}
	var libBlocks, lib1Blocks []BlockInfo
	lib1 := false
	if o.Import && o.Blocks {
		g.file("/lib/lib0.jet", "lib", "", nil, nil)
		libBlocks = append(libBlocks, g.f.blocks...)
		if t.Choose(2) == 1 {
			// a second block source: files may import both (and define no block themselves)
			g.file("/lib/lib1.jet", "lib", "", nil, nil)
			lib1Blocks = append(lib1Blocks, g.f.blocks...)
			lib1 = true
		}
	}
	// which libs a file imports, and the blocks that makes visible to it
	libImports := func() ([]string, []BlockInfo) {
		if lib1 && t.Choose(2) == 1 {
			both := append(append([]BlockInfo(nil), libBlocks...), lib1Blocks...)
			if t.Choose(2) == 1 {
				return []string{"/lib/lib1.jet", "/lib/lib0.jet"}, both
			}
			return []string{"/lib/lib0.jet", "/lib/lib1.jet"}, both
		}
		return []string{"/lib/lib0.jet"}, libBlocks
	}
	if o.Include {
		n := t.Range(1, 2)
		for i := 0; i < n; i++ {
			p := fmt.Sprintf("/inc%d.jet", i)
			if i == 1 {
				p = "/sub/inc1.jet"
			}
			var imps []string
			vis := []BlockInfo(nil)
			if len(libBlocks) > 0 && t.Choose(2) == 1 {
				imps, vis = libImports()
			}
			g.file(p, "inc", "", imps, vis)
			g.incs = append(g.incs, p)
		}
	}
	var baseBlocks []BlockInfo
	if o.Extends && o.Blocks {
		var imps []string
		vis := []BlockInfo(nil)
		if len(libBlocks) > 0 && t.Choose(2) == 1 {
			imps, vis = libImports()
		}
		g.file("/base.jet", "base", "", imps, vis)
		baseBlocks = g.f.blocks
	}
	nm := t.Range(1, 3)
	for i := 0; i < nm; i++ {
		p := fmt.Sprintf("/t%d.jet", i)
		if len(baseBlocks) > 0 && t.Choose(3) == 2 && !(o.TargetTry && i == nm-1) {
			var imps []string
			if len(libBlocks) > 0 && t.Choose(2) == 1 {
				imps = []string{"lib/lib0.jet"}
			}
			g.file(p, "child", "/base.jet", imps, baseBlocks)
		} else {
			var imps []string
			vis := []BlockInfo(nil)
			if len(libBlocks) > 0 && t.Choose(2) == 1 {
				imps, vis = libImports()
			}
			role := "main"
			if o.TargetTry && i == nm-1 {
				role = "main-target"
			}
			g.file(p, role, "", imps, vis)
		}
		w.Mains = append(w.Mains, p)
	}
	if len(baseBlocks) > 0 {
		w.Mains = append(w.Mains, "/base.jet")
	}
	sort.Strings(w.VarNames)
	if o.TargetTry {
		var b strings.Builder
		for _, v := range w.VarNames {
			fmt.Fprintf(&b, "{{isset(%s)}}", v)
		}
		b.WriteString("{{isset(e)}}")
		for p, src := range w.Files {
			w.Files[p] = strings.ReplaceAll(src, SetToken, b.String())
		}
	}
	return w
}
