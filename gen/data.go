// Package gen generates template worlds (files + data + probes) from the tape.
package gen

import (
	"fmt"
	"strings"

	"verif/sim"
)

// Data graph types used as Execute data and variables. Instances are built
// per run from the tape and never mutated after construction.

// extra is an unexported embedded struct type: its exported field is promoted,
// but jet's per-type field index does not list it (slow reflect path).
type extra struct {
	ExtraNote  string
	hiddenNote string // unexported and promoted through the embedded struct
}

// Collide: an outer field and a field of an embedded struct share a name (a legal shape whose
// resolution must at least be the same every time it is evaluated).
type Inner struct {
	Name string
	Only string
}

type Collide struct {
	Name string
	Inner
}

// Collide2 has exactly Collide's shape and values: whatever a field name resolves to on one must be
// what it resolves to on the other, at any time (C10 prints both side by side).
type Collide2 struct {
	Name string
	Inner
}

// Meta is embedded by pointer: promoted through a pointer, also the slow path.
type Meta struct {
	MetaName string
}

type Item struct {
	extra
	Name   string
	N      int
	Tags   []string
	Sub    *Item
	M      map[string]string
	secret string // unexported: not reachable from templates
}

func (i Item) Title() string    { return "T:" + i.Name }
func (i *Item) PtrName() string { return "P:" + i.Name }

type Base struct {
	BaseName string
	Shared   int
}

func (b Base) Hello() string { return "hello " + b.BaseName }

type Root struct {
	Base
	*Meta
	Title   string
	Count   int
	Items   []Item
	Names   []string
	One     map[string]int
	Nested  *Root
	Flag    bool
	Zero    int
	Empty   string
	NilP    *Item
	Arr     [2]int
	Any     interface{}
	NoNames []string // always empty (non-nil)
	Col     Collide
	Col2    Collide2
	// Three: three entries with one and the same value (what a range over it renders does not depend on
	// the iteration order as long as keys are not printed); NoMap: empty, not nil
	Three map[string]string
	NoMap map[string]string
}

func (r *Root) First() Item {
	if len(r.Items) == 0 {
		return Item{Name: "none"}
	}
	return r.Items[0]
}

// DataSpec is the tape-chosen description of a data graph; Build makes a fresh
// copy, so every call of a history gets its own objects.
type DataSpec struct {
	Title  string
	Count  int
	NItems int
	NNames int
	Flag   bool
	Ptr    bool // pass *Root instead of Root as Execute data
	Nested bool
	Tag    int
	// Big: 0 ordinary sizes; 1: 20 names and a 700-byte title; 2: a 6000-byte title (sizes beyond the
	// small buffers and inline capacities ordinary examples stay under)
	Big int
	// Nil: Execute is given no data at all (nil): '.' is nothing
	Nil bool
}

func GenData(t *sim.Tape, tag int) DataSpec {
	return DataSpec{
		Title:  fmt.Sprintf("ti<%d>&", tag),
		Count:  t.Range(0, 5),
		NItems: t.Range(1, 3),
		NNames: t.Range(1, 3),
		Flag:   t.Bool(1, 2),
		Ptr:    t.Bool(1, 2),
		Nested: t.Bool(1, 3),
		Tag:    tag,
		Big:    t.Weighted(14, 1, 1),
	}
}

func (d DataSpec) BuildRoot() *Root {
	r := &Root{Base: Base{BaseName: fmt.Sprintf("bn%d", d.Tag), Shared: 7}, Meta: &Meta{MetaName: fmt.Sprintf("mn%d", d.Tag)}, Title: d.Title, Count: d.Count, Flag: d.Flag,
		One: map[string]int{"k": d.Tag}, Arr: [2]int{4, 2}, Any: "any", NoNames: []string{},
		Three: map[string]string{"ka": "t", "kb": "t", "kc": "t"}, NoMap: map[string]string{},
		Col:  Collide{Name: "outer", Inner: Inner{Name: "embedded", Only: "only"}},
		Col2: Collide2{Name: "outer", Inner: Inner{Name: "embedded", Only: "only"}}}
	for i := 0; i < d.NItems; i++ {
		it := Item{Name: fmt.Sprintf("it%d.%d", d.Tag, i), N: i + 1, Tags: []string{fmt.Sprintf("tg%d", i)}, M: map[string]string{"mk": fmt.Sprintf("mv%d", i)}, secret: "PRIVATE", extra: extra{ExtraNote: fmt.Sprintf("xn%d", i), hiddenNote: "HIDDEN"}}
		if i == 0 {
			it.Sub = &Item{Name: "sub", N: 9}
		}
		r.Items = append(r.Items, it)
	}
	nNames := d.NNames
	switch d.Big {
	case 1:
		nNames = 20
		r.Title += strings.Repeat("t", 700)
	case 2:
		r.Title += strings.Repeat("T", 6000)
	}
	for i := 0; i < nNames; i++ {
		r.Names = append(r.Names, fmt.Sprintf("nm%d.%d", d.Tag, i))
	}
	if d.Nested {
		r.Nested = &Root{Meta: &Meta{MetaName: "nmeta"}, Title: "nested", Items: []Item{{Name: "ni", N: 5}}, Names: []string{"nn"}, One: map[string]int{"k": 1}}
	}
	return r
}

// Data returns the value passed to Execute as data.
func (d DataSpec) Data() interface{} {
	if d.Nil {
		return nil
	}
	r := d.BuildRoot()
	if d.Ptr {
		return r
	}
	return *r
}

func (d DataSpec) String() string {
	return fmt.Sprintf("Root{Title:%q Count:%d Items:%d Names:%d Flag:%v ptr:%v nested:%v}", d.Title, d.Count, d.NItems, d.NNames, d.Flag, d.Ptr, d.Nested)
}
