//go:build !race

package simrt

const RaceEnabled = false

func raceRelease(x any) {}
func raceAcquire(x any) {}
func StealthBegin()     {}
func StealthEnd()       {}
