package simrt

import (
	"sync"

	"verif/sim"

	jet "github.com/CloudyKit/jet/v6"
)

// Simulated object pools (DESIGN.md §3.4). With the verif hooks installed,
// Execute and getRanger ignore whatever the real sync.Pool returned and ask
// the simulator, which keeps an explicit free list and chooses among
// {fresh object, any released object} with exclusive ownership, exactly the
// guarantee sync.Pool gives. What sync.Pool really does is one of these
// choices, so every divergence found is reachable in production.
//
// All state lives in slices and all methods are //go:norace: in race builds the
// pools are entered by client goroutines that the stealth baton serialises
// without a happens-before edge visible to the detector. The edge a real
// sync.Pool provides (Put -> Get of the same object) is re-created explicitly
// in race builds (raceRelease / raceAcquire).

type PoolPolicy int

const (
	PoolFresh       PoolPolicy = iota // always a new object: no residue can be observed by construction
	PoolAdversarial                   // prefer the most "dangerous" released object (engine-defined), else tape
	PoolRandom                        // tape-chosen among fresh and every released object
	PoolLIFO                          // most recently released first (what sync.Pool usually does on one P)
)

type rtEntry struct {
	rt     *jet.Runtime
	id     int
	owner  int  // client that released it
	failed bool // released by a failed execution
	free   bool
	slots  int // how many times it currently sits in the pool (a double Put gives 2, as in sync.Pool)
}

type rgEntry struct {
	pool  *sync.Pool
	r     jet.Ranger
	id    int
	free  bool
	seq   int // release sequence number
	slots int // how many times it currently sits in the pool: sync.Pool does not deduplicate, so an
	// object Put twice is handed to two owners; the simulator keeps that behaviour
}

type Pools struct {
	Tape   *sim.Tape
	Policy PoolPolicy
	// CurClient is set by the scheduler/engine to the client that is running.
	CurClient int

	rts    []rtEntry
	rgs    []rgEntry
	relSeq int

	// statistics
	RtFresh, RtReused, RtReusedAfterFail, RtReusedCross int64
	RgFresh, RgReused, RgReusedNested                   int64
	lastRt                                              int // index of the runtime released last
	Trace                                               func(format string, a ...any)
	rgOutstanding                                       int
	DoublePuts                                          int64 // an object released while it was already in the pool
	freshUntracked                                      int64 // rangers created under PoolFresh (not in the table)
}

// Install sets the jet hooks; the returned func removes them.
func (p *Pools) Install() func() {
	p.lastRt = -1
	jet.VerifHooks.SwapRuntime = p.swapRuntime
	jet.VerifHooks.ReleaseRuntime = p.releaseRuntime
	jet.VerifHooks.SwapRanger = p.swapRanger
	jet.VerifHooks.ReleaseRanger = p.releaseRanger
	return func() {
		jet.VerifHooks.SwapRuntime = nil
		jet.VerifHooks.ReleaseRuntime = nil
		jet.VerifHooks.SwapRanger = nil
		jet.VerifHooks.ReleaseRanger = nil
	}
}

//go:norace
func (p *Pools) trace(format string, a ...any) {
	if p.Trace != nil {
		p.Trace(format, a...)
	}
}

//go:norace
func (p *Pools) swapRuntime(got *jet.Runtime, fresh func() *jet.Runtime) *jet.Runtime {
	var cand []int
	for i := range p.rts {
		if p.rts[i].free {
			cand = append(cand, i)
		}
	}
	pick := -1
	switch p.Policy {
	case PoolFresh:
	case PoolLIFO:
		if len(cand) > 0 {
			pick = cand[len(cand)-1]
		}
	case PoolAdversarial:
		// prefer: released by a failed execution, then by another client, most recent first
		best, bestScore := -1, -1
		for _, i := range cand {
			s := 0
			if p.rts[i].failed {
				s += 4
			}
			if p.rts[i].owner != p.CurClient {
				s += 2
			}
			if i == p.lastRt {
				s++
			}
			if s >= bestScore {
				best, bestScore = i, s
			}
		}
		pick = best
		// leave some room for the tape: one time in four choose differently
		if len(cand) > 0 && p.Tape.Choose(4) == 3 {
			k := p.Tape.Choose(len(cand) + 1)
			if k == len(cand) {
				pick = -1
			} else {
				pick = cand[k]
			}
		}
	case PoolRandom:
		k := p.Tape.Choose(len(cand) + 1)
		if k > 0 {
			pick = cand[k-1]
		}
	}
	if pick < 0 {
		rt := fresh()
		p.rts = append(p.rts, rtEntry{rt: rt, id: len(p.rts), owner: p.CurClient})
		p.RtFresh++
		p.trace("pool-get rt#%d fresh", len(p.rts)-1)
		return rt
	}
	e := &p.rts[pick]
	e.slots--
	if e.slots <= 0 {
		e.slots = 0
		e.free = false
	}
	p.RtReused++
	if e.failed {
		p.RtReusedAfterFail++
	}
	if e.owner != p.CurClient {
		p.RtReusedCross++
	}
	raceAcquire(e.rt)
	p.trace("pool-get rt#%d reused(failed=%v owner=%d)", e.id, e.failed, e.owner)
	return e.rt
}

//go:norace
func (p *Pools) releaseRuntime(rt *jet.Runtime) {
	for i := range p.rts {
		if p.rts[i].rt == rt {
			if p.rts[i].free {
				p.DoublePuts++
			}
			p.rts[i].slots++
			p.rts[i].free = true
			p.rts[i].failed = false
			p.rts[i].owner = p.CurClient
			p.lastRt = i
			raceRelease(rt)
			p.trace("pool-put rt#%d", p.rts[i].id)
			return
		}
	}
	// a runtime the simulator did not hand out (hooks installed mid-flight): adopt it
	p.rts = append(p.rts, rtEntry{rt: rt, id: len(p.rts), owner: p.CurClient, free: true, slots: 1})
	p.lastRt = len(p.rts) - 1
	raceRelease(rt)
}

// MarkLastReleased tells the pools whether the execution that released the
// most recent runtime failed (known only after Execute returned).
//
//go:norace
func (p *Pools) MarkLastReleased(failed bool) {
	if p.lastRt >= 0 {
		p.rts[p.lastRt].failed = failed
	}
}

//go:norace
func (p *Pools) swapRanger(pool *sync.Pool, got jet.Ranger, fresh func() jet.Ranger) jet.Ranger {
	if p.Policy == PoolFresh {
		// nothing is ever reused under this policy: do not keep track of the object at all (a long
		// run creates thousands of rangers; a table of them makes every release a linear scan)
		p.RgFresh++
		p.rgOutstanding++
		p.freshUntracked++
		p.trace("pool-get %s-ranger fresh (untracked)", jet.VerifRangerPoolName(pool))
		return fresh()
	}
	var cand []int
	for i := range p.rgs {
		if p.rgs[i].free && p.rgs[i].pool == pool {
			cand = append(cand, i)
		}
	}
	pick := -1
	switch p.Policy {
	case PoolFresh:
	case PoolLIFO, PoolAdversarial:
		// the ranger released most recently: a Setup that forgets a field, or a
		// cleanup that released a ranger still in use, shows at once
		best := -1
		for _, i := range cand {
			if best < 0 || p.rgs[i].seq > p.rgs[best].seq {
				best = i
			}
		}
		pick = best
		if p.Policy == PoolAdversarial && len(cand) > 0 && p.Tape.Choose(4) == 3 {
			k := p.Tape.Choose(len(cand) + 1)
			if k == len(cand) {
				pick = -1
			} else {
				pick = cand[k]
			}
		}
	case PoolRandom:
		k := p.Tape.Choose(len(cand) + 1)
		if k > 0 {
			pick = cand[k-1]
		}
	}
	if pick < 0 {
		r := fresh()
		p.rgs = append(p.rgs, rgEntry{pool: pool, r: r, id: len(p.rgs)})
		p.RgFresh++
		p.rgOutstanding++
		p.trace("pool-get %s-ranger#%d fresh", jet.VerifRangerPoolName(pool), len(p.rgs)-1)
		return r
	}
	e := &p.rgs[pick]
	e.slots--
	if e.slots <= 0 {
		e.slots = 0
		e.free = false
	}
	p.RgReused++
	if p.rgOutstanding > 0 {
		p.RgReusedNested++
	}
	p.rgOutstanding++
	raceAcquire(e.r)
	p.trace("pool-get %s-ranger#%d reused", jet.VerifRangerPoolName(pool), e.id)
	return e.r
}

//go:norace
func (p *Pools) releaseRanger(pool *sync.Pool, r jet.Ranger) {
	if p.Policy == PoolFresh && p.freshUntracked > 0 {
		// released under the no-reuse policy: dropped, like an object a sync.Pool loses at the next GC
		if p.rgOutstanding > 0 {
			p.rgOutstanding--
		}
		p.trace("pool-put %s-ranger (dropped)", jet.VerifRangerPoolName(pool))
		return
	}
	p.relSeq++
	for i := range p.rgs {
		if p.rgs[i].r == r {
			if p.rgs[i].free {
				p.DoublePuts++
			}
			p.rgs[i].slots++
			p.rgs[i].free = true
			p.rgs[i].seq = p.relSeq
			if p.rgOutstanding > 0 {
				p.rgOutstanding--
			}
			raceRelease(r)
			p.trace("pool-put %s-ranger#%d", jet.VerifRangerPoolName(pool), p.rgs[i].id)
			return
		}
	}
	p.rgs = append(p.rgs, rgEntry{pool: pool, r: r, id: len(p.rgs), free: true, seq: p.relSeq, slots: 1})
	raceRelease(r)
}

// AbandonOutstanding resets the "rangers currently in use" counter after an
// execution ended (rangers abandoned by a failed body are never released,
// exactly as with sync.Pool, and are never handed out again).
//
//go:norace
func (p *Pools) AbandonOutstanding() { p.rgOutstanding = 0 }
