package simrt

import (
	"fmt"
	"sync"

	"verif/sim"
)

// Seeded scheduler over real goroutines (DESIGN.md §3.3). Exactly one client
// holds the baton; the others are parked on their own channel. A client gives
// the baton back at every yield point (jet's verifYield hook sites and every
// entry into a seam the simulator owns). The scheduler goroutine then picks
// the next runnable client from the tape.
//
// The baton's channel operations are wrapped in StealthBegin/StealthEnd
// (runtime.RaceDisable): in race builds the detector does not see the baton as
// synchronisation, so two accesses race in its eyes whenever the program's OWN
// synchronisation does not order them - no matter how far apart the
// serialised schedule executed them. A data race thus becomes a deterministic,
// replayable finding.
//
// Harness state touched by client goroutines lives in per-client structures
// or is accessed from //go:norace functions (no Go maps there).

type Strategy int

const (
	StratRandom Strategy = iota // uniform with a per-run "stay on the same client" bias
	StratPCT                    // random priorities with d priority-change points
)

type Client struct {
	ID    int
	wake  chan struct{}
	prio  int
	Log   []string // per-client event log (merged after the run)
	Steps int
	Sites [len(SiteNames)]int64 // yields per site (per client; summed after the run)
}

// SiteNames are the yield sites counted separately in the evidence.
var SiteNames = [...]string{"resolve:globals", "fieldcache:read", "fieldcache:fill", "AddGlobal", "LookupGlobal", "getTemplate:miss", "getTemplate:put",
	"cache:Get", "cache:Put", "InMemLoader:Open", "InMemLoader:Exists", "InMemLoader:Set", "InMemLoader:Delete", "loader:Exists", "loader:Open", "writer:Write", "other"}

//go:norace
func siteIndex(site string) int {
	for i := 0; i < len(SiteNames)-1; i++ {
		if SiteNames[i] == site {
			return i
		}
	}
	return len(SiteNames) - 1
}

type Sched struct {
	Tape     *sim.Tape
	Clients  []*Client
	back     chan int // client -> scheduler: "I yielded" (value: client id) / "I finished" (-id-1)
	cur      int
	Steps    int
	MaxSteps int
	Strategy Strategy
	stayBias int // StratRandom: probability (x/8) of staying on the current client
	changeAt []int
	seq      int64 // global event sequence number
	Exceeded bool
	active   bool
	// schedule fingerprint
	SwitchHash uint64
	Switches   int
	Pools      *Pools
	sites      []string // yield sites seen, in order (only kept when KeepSites)
	KeepSites  bool
}

func NewSched(t *sim.Tape, n int) *Sched {
	s := &Sched{Tape: t, back: make(chan int), MaxSteps: 2000000, SwitchHash: 14695981039346656037}
	for i := 0; i < n; i++ {
		s.Clients = append(s.Clients, &Client{ID: i, wake: make(chan struct{})})
	}
	if t.Choose(3) == 2 {
		s.Strategy = StratPCT
		d := t.Range(1, 3)
		for i := 0; i < d; i++ {
			s.changeAt = append(s.changeAt, t.Range(1, 60))
		}
		// distinct initial priorities, tape-shuffled
		for i, c := range s.Clients {
			c.prio = i + 10
		}
		for i := len(s.Clients) - 1; i > 0; i-- {
			j := t.Choose(i + 1)
			s.Clients[i].prio, s.Clients[j].prio = s.Clients[j].prio, s.Clients[i].prio
		}
	} else {
		s.stayBias = t.Choose(8)
	}
	return s
}

// Seq returns the next global event sequence number (only the baton holder calls it).
//
//go:norace
func (s *Sched) Seq() int64 {
	s.seq++
	return s.seq
}

// Cur is the id of the client holding the baton.
//
//go:norace
func (s *Sched) Cur() int { return s.cur }

//go:norace
func (s *Sched) curClient() *Client { return s.Clients[s.cur] }

// Logf appends to the running client's own log.
//
//go:norace
func (s *Sched) Logf(format string, a ...any) {
	c := s.curClient()
	c.Log = append(c.Log, fmt.Sprintf("%d c%d ", s.seq, c.ID)+fmt.Sprintf(format, a...))
}

// Yield is called by the running client at a yield point.
//
//go:norace
func (s *Sched) Yield(site string) {
	if !s.active {
		return
	}
	c := s.curClient()
	c.Steps++
	c.Sites[siteIndex(site)]++
	StealthBegin()
	s.back <- c.ID
	<-c.wake
	StealthEnd()
}

//go:norace
func (s *Sched) finish(c *Client) {
	StealthBegin()
	s.back <- -c.ID - 1
	StealthEnd()
}

// pick chooses the next client to run among the runnable ones.
func (s *Sched) pick(runnable []int) int {
	if len(runnable) == 1 {
		return runnable[0]
	}
	if s.Strategy == StratPCT {
		for _, at := range s.changeAt {
			if s.Steps == at {
				// the running client drops to the lowest priority
				s.Clients[s.cur].prio = -s.Steps
			}
		}
		best := runnable[0]
		for _, id := range runnable[1:] {
			if s.Clients[id].prio > s.Clients[best].prio {
				best = id
			}
		}
		return best
	}
	// stay on the current client with probability stayBias/8
	curRunnable := false
	for _, id := range runnable {
		if id == s.cur {
			curRunnable = true
		}
	}
	if curRunnable && s.stayBias > 0 && s.Tape.Choose(8) < s.stayBias {
		return s.cur
	}
	return runnable[s.Tape.Choose(len(runnable))]
}

// Run executes the client bodies under the seeded schedule and returns when
// all have finished (or the step bound is exceeded, in which case the
// remaining clients are simply released to run to completion unscheduled).
func (s *Sched) Run(bodies []func(c *Client)) {
	var wg sync.WaitGroup
	s.active = true
	for i, c := range s.Clients {
		wg.Add(1)
		c, body := c, bodies[i]
		go func() {
			defer wg.Done()
			StealthBegin()
			<-c.wake
			StealthEnd()
			body(c)
			s.finish(c)
		}()
	}
	remaining := len(s.Clients)
	done := make([]bool, len(s.Clients)) // scheduler-private: updated from the clients' reports
	s.cur = -1
	for remaining > 0 {
		var runnable []int
		for _, c := range s.Clients {
			if !done[c.ID] {
				runnable = append(runnable, c.ID)
			}
		}
		next := s.pick(runnable)
		if next != s.cur {
			s.Switches++
			s.SwitchHash ^= uint64(next + 1)
			s.SwitchHash *= 1099511628211
			s.SwitchHash ^= uint64(s.Steps)
			s.SwitchHash *= 1099511628211
		}
		s.cur = next
		if s.Pools != nil {
			s.Pools.CurClient = next
		}
		s.Steps++
		StealthBegin()
		s.Clients[next].wake <- struct{}{}
		r := <-s.back
		StealthEnd()
		if r < 0 {
			done[-r-1] = true
			remaining--
		}
		if s.Steps > s.MaxSteps && remaining > 0 {
			s.Exceeded = true
			break
		}
	}
	if s.Exceeded {
		// the run is over (liveness bound): stop scheduling, let everybody run to completion
		s.active = false
		go func() {
			for range s.back {
			}
		}()
		for _, c := range s.Clients {
			if !done[c.ID] {
				StealthBegin()
				c.wake <- struct{}{}
				StealthEnd()
			}
		}
	}
	wg.Wait()
}
