//go:build race

package simrt

import (
	"reflect"
	"runtime"
	"unsafe"
)

const RaceEnabled = true

func ptrOf(x any) unsafe.Pointer { return unsafe.Pointer(reflect.ValueOf(x).Pointer()) }

// raceRelease/raceAcquire re-create the happens-before edge a real sync.Pool
// provides between Put and the Get that returns the same object.
func raceRelease(x any) { runtime.RaceReleaseMerge(ptrOf(x)) }
func raceAcquire(x any) { runtime.RaceAcquire(ptrOf(x)) }

// StealthBegin/StealthEnd bracket the scheduler's own channel operations so the
// race detector does not see them as synchronisation (ThreadSanitizer
// ignore_sync): the memory effects stay real, the happens-before edge is hidden.
func StealthBegin() { runtime.RaceDisable() }
func StealthEnd()   { runtime.RaceEnable() }
