package sim

import (
	"fmt"
	"sort"
	"strings"
	"testing"
)

// Violation is one oracle failure found by a run.
type Violation struct {
	Oracle string `json:"oracle"` // which oracle of the property fired
	Key    string `json:"key"`    // finding key (DESIGN.md Appendix B): specific to the call site / input shape
	Detail string `json:"detail"` // human-readable: expected vs observed
}

// Result is what one simulated run reports to the driver.
type Result struct {
	Violations []Violation      `json:"violations,omitempty"`
	Invalid    string           `json:"invalid,omitempty"` // generator produced something its oracle cannot judge (counted, never judged)
	Sig        string           `json:"sig,omitempty"`     // fingerprint of the explored case (distinctness measure)
	Nontrivial bool             `json:"nontrivial"`        // by the engine's stated rule
	Sample     string           `json:"sample,omitempty"`  // the case written out for a reader
	Stats      map[string]int64 `json:"stats,omitempty"`   // counters: faults fired, probes hit, yields, virtual ns …
	Scenario   any              `json:"scenario,omitempty"`
	Tape       []uint64         `json:"tape"` // canonical tape
	EventHash  string           `json:"event_hash,omitempty"`
	Log        []string         `json:"log,omitempty"` // event log (only when requested)
	// Distinct: further "reach" measures, name -> value of this run; the driver counts distinct
	// values per name over the batch (e.g. schedules -> hash of the context-switch sequence)
	Distinct map[string]string `json:"distinct,omitempty"`
}

// Env is what an engine receives for one run.
type Env struct {
	T       *testing.T
	Tape    *Tape
	Prop    string
	Tier    string
	WantLog bool
	Res     *Result

	events []string
	evHash uint64
	nEv    int
}

func (e *Env) Stat(name string, d int64) {
	if e.Res.Stats == nil {
		e.Res.Stats = map[string]int64{}
	}
	e.Res.Stats[name] += d
}

// Reach records this run's value for a distinct-count measure.
func (e *Env) Reach(name, value string) {
	if e.Res.Distinct == nil {
		e.Res.Distinct = map[string]string{}
	}
	e.Res.Distinct[name] = value
}

// Violate records a violation; at most one per (oracle,key) per run.
func (e *Env) Violate(oracle, key, format string, a ...any) {
	for _, v := range e.Res.Violations {
		if v.Oracle == oracle && v.Key == key {
			return
		}
	}
	d := fmt.Sprintf(format, a...)
	if len(d) > 4000 {
		d = d[:4000] + "…"
	}
	e.Res.Violations = append(e.Res.Violations, Violation{oracle, key, d})
}

// Event appends to the per-run event log. It never draws from the tape and
// never reads a clock. The log is hashed always and kept only when requested.
func (e *Env) Event(format string, a ...any) {
	s := fmt.Sprintf(format, a...)
	if e.evHash == 0 {
		e.evHash = 14695981039346656037
	}
	for i := 0; i < len(s); i++ {
		e.evHash ^= uint64(s[i])
		e.evHash *= 1099511628211
	}
	e.evHash ^= '\n'
	e.evHash *= 1099511628211
	e.nEv++
	if e.WantLog {
		e.events = append(e.events, s)
	}
}

func (e *Env) finish() {
	e.Res.Tape = e.Tape.Used()
	e.Res.EventHash = fmt.Sprintf("%016x/%d", e.evHash, e.nEv)
	if e.WantLog {
		e.Res.Log = e.events
	}
}

// Engine runs one simulated execution decided entirely by env.Tape.
type Engine func(env *Env)

// SortedKeys is a helper for deterministic iteration over string-keyed maps.
func SortedKeys[V any](m map[string]V) []string {
	ks := make([]string, 0, len(m))
	for k := range m {
		ks = append(ks, k)
	}
	sort.Strings(ks)
	return ks
}

// Clip shortens long strings for reports.
func Clip(s string, n int) string {
	if len(s) <= n {
		return s
	}
	return s[:n] + fmt.Sprintf("…(+%d bytes)", len(s)-n)
}

// Q quotes compactly for details.
func Q(s string) string { return fmt.Sprintf("%q", Clip(s, 600)) }

func JoinLines(ss []string) string { return strings.Join(ss, "\n") }
