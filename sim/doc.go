// Package sim is the simulator kernel shared by all engines.
package sim
