package sim

import (
	"bufio"
	"encoding/json"
	"fmt"
	"os"
	"runtime"
	"runtime/debug"
	"strings"
	"testing"
	"time"
)

// Request is one line on the worker's stdin.
type Request struct {
	ID     int64    `json:"id"`
	Engine string   `json:"engine"`
	Prop   string   `json:"prop"`
	Tier   string   `json:"tier"`
	Seed   int64    `json:"seed"`
	Run    int64    `json:"run"`
	Replay bool     `json:"replay"`
	Tape   []uint64 `json:"tape,omitempty"`
	Log    bool     `json:"log,omitempty"`
}

// Response is one line on the worker's result pipe (fd 3).
type Response struct {
	Begin  int64   `json:"begin,omitempty"` // written before a run starts, so a dying worker identifies its culprit
	ID     int64   `json:"id,omitempty"`
	Result *Result `json:"result,omitempty"`
	Error  string  `json:"error,omitempty"` // machinery trouble (harness panic): never a violation
}

// MemoryLimit is the live-heap size at which a worker gives up on its run: the sandbox has no memory
// limit of its own, and a run that allocates without bound (a loop that does not end, a string that
// doubles per iteration) would otherwise take gigabytes before the per-run watchdog fires. The driver
// treats the exit like a hang.
const MemoryLimit = 3 << 30

const MemoryLimitMarker = "VERIF-MEMORY-LIMIT"

func memoryWatchdog() {
	var ms runtime.MemStats
	for {
		time.Sleep(200 * time.Millisecond)
		runtime.ReadMemStats(&ms)
		if ms.HeapAlloc > MemoryLimit {
			fmt.Fprintf(os.Stderr, "\n%s: live heap %d MiB exceeds %d MiB during one run\n", MemoryLimitMarker, ms.HeapAlloc>>20, MemoryLimit>>20)
			os.Exit(67)
		}
	}
}

// Serve is the worker main loop: read requests, run engines, write results.
func Serve(t *testing.T, engines map[string]Engine) {
	out := os.NewFile(3, "results")
	if out == nil {
		t.Skip("not started by simdriver (no result pipe)")
		return
	}
	if _, err := out.Stat(); err != nil {
		t.Skip("not started by simdriver (no result pipe)")
		return
	}
	w := bufio.NewWriter(out)
	enc := json.NewEncoder(w)
	in := bufio.NewReaderSize(os.Stdin, 1<<20)
	go memoryWatchdog()
	for {
		line, err := in.ReadBytes('\n')
		if len(line) > 0 {
			var rq Request
			if jerr := json.Unmarshal(line, &rq); jerr != nil {
				enc.Encode(Response{Error: "bad request: " + jerr.Error()})
				w.Flush()
				return
			}
			enc.Encode(Response{Begin: rq.ID})
			w.Flush()
			resp := RunOne(t, engines, &rq)
			enc.Encode(resp)
			w.Flush()
		}
		if err != nil {
			return
		}
	}
}

// RunOne executes a single request in this process.
func RunOne(t *testing.T, engines map[string]Engine, rq *Request) (resp Response) {
	resp.ID = rq.ID
	eng, ok := engines[rq.Engine]
	if !ok {
		resp.Error = "unknown engine " + rq.Engine
		return
	}
	var tape *Tape
	if rq.Replay {
		tape = NewReplayTape(rq.Tape)
	} else {
		tape = NewGenTape(RunSeed(rq.Seed, rq.Engine, rq.Prop, rq.Run))
	}
	env := &Env{T: t, Tape: tape, Prop: rq.Prop, Tier: rq.Tier, WantLog: rq.Log, Res: &Result{}}
	defer func() {
		if r := recover(); r != nil {
			resp.Result = nil
			resp.Error = fmt.Sprintf("harness panic: %v\n%s", r, debug.Stack())
		}
	}()
	eng(env)
	env.finish()
	resp.Result = env.Res
	return
}

// Caught describes a panic recovered by Guard.
type Caught struct {
	Value any
	Stack string
}

func (c *Caught) String() string { return fmt.Sprintf("%v", c.Value) }

// InnermostJetFunc extracts the innermost github.com/CloudyKit/jet frame of the
// panic's stack (the function that panicked or called into the runtime).
func (c *Caught) InnermostJetFunc() string { return InnermostJetFunc(c.Stack) }

// InnermostJetFunc returns the first jet (or fastprinter) function name in a
// Go stack dump, without the package path; "?" if none.
func InnermostJetFunc(stack string) string {
	for _, ln := range strings.Split(stack, "\n") {
		ln = strings.TrimSpace(ln)
		const p = "github.com/CloudyKit/jet/v6"
		i := strings.Index(ln, p)
		if i != 0 {
			continue
		}
		rest := ln[len(p):]
		// rest looks like ".(*Runtime).executeList(0x..., ...)" or "/loaders/multi.(*Multi).Open(...)"
		if j := strings.LastIndex(rest, "("); j > 0 {
			rest = rest[:j]
		}
		rest = strings.TrimPrefix(rest, ".")
		if strings.HasPrefix(rest, "Verif") || strings.HasPrefix(rest, "verif") {
			continue
		}
		// closures: Foo.func1 -> Foo
		for {
			k := strings.LastIndex(rest, ".func")
			if k < 0 {
				break
			}
			rest = rest[:k]
		}
		return rest
	}
	return "?"
}

// Guard runs f and reports a panic escaping from it, if any. All calls from
// engines into the code under test go through Guard, so a panic anywhere else
// is a harness bug (reported as machinery trouble, never as a violation).
func Guard(f func()) (c *Caught) {
	defer func() {
		if r := recover(); r != nil {
			c = &Caught{Value: r, Stack: string(debug.Stack())}
		}
	}()
	f()
	return nil
}
