package sim

// The choice tape: the only source of decisions in a simulated run.
//
// generate mode: values come from a SplitMix64 stream seeded from
// (VERIF_SEED, engine, property, run index) and are recorded.
// replay mode: values come from a recorded tape; past its end every choice is 0,
// and generators are written so that 0 is the simplest alternative.
//
// The tape never reads a clock and logging never draws from it, so a run is a
// pure function of (tape, code under test).

type Tape struct {
	in     []uint64 // replay input (nil in generate mode)
	pos    int
	replay bool
	state  uint64   // splitmix state (generate mode)
	used   []uint64 // canonical values actually consumed (value already reduced mod n)
	over   bool     // replay ran past the end of the tape
}

func splitmix(x *uint64) uint64 {
	*x += 0x9e3779b97f4a7c15
	z := *x
	z = (z ^ (z >> 30)) * 0xbf58476d1ce4e5b9
	z = (z ^ (z >> 27)) * 0x94d049bb133111eb
	return z ^ (z >> 31)
}

// HashString is FNV-1a, used to mix labels into seeds and to fingerprint logs.
func HashString(s string) uint64 {
	h := uint64(14695981039346656037)
	for i := 0; i < len(s); i++ {
		h ^= uint64(s[i])
		h *= 1099511628211
	}
	return h
}

// RunSeed derives the PRNG state of one run from the base seed.
func RunSeed(seed int64, engine, prop string, run int64) uint64 {
	x := uint64(seed)*0x9e3779b97f4a7c15 ^ HashString(engine+"/"+prop)
	_ = splitmix(&x)
	x ^= uint64(run) * 0xd1342543de82ef95
	_ = splitmix(&x)
	return x
}

func NewGenTape(state uint64) *Tape { return &Tape{state: state} }

func NewReplayTape(vals []uint64) *Tape { return &Tape{in: vals, replay: true} }

// Choose returns a value in [0,n). n<=1 consumes nothing.
//
//go:norace
func (t *Tape) Choose(n int) int {
	if n <= 1 {
		return 0
	}
	var v uint64
	if t.replay {
		if t.pos < len(t.in) {
			v = t.in[t.pos] % uint64(n)
		} else {
			t.over = true
		}
		t.pos++
	} else {
		v = splitmix(&t.state) % uint64(n)
	}
	t.used = append(t.used, v)
	return int(v)
}

// Bool is true with probability num/den; false is the simple alternative.
//
//go:norace
func (t *Tape) Bool(num, den int) bool {
	return t.Choose(den) >= den-num
}

// Range returns a value in [lo,hi] (inclusive); lo is the simple alternative.
//
//go:norace
func (t *Tape) Range(lo, hi int) int {
	if hi <= lo {
		return lo
	}
	return lo + t.Choose(hi-lo+1)
}

// Weighted picks an index with probability proportional to its weight; index 0
// should be the simplest alternative. Zero-weight entries are never chosen
// (unless all are zero, then 0).
//
//go:norace
func (t *Tape) Weighted(w ...int) int {
	total := 0
	for _, x := range w {
		total += x
	}
	if total <= 0 {
		return 0
	}
	v := t.Choose(total)
	for i, x := range w {
		if v < x {
			return i
		}
		v -= x
	}
	return 0
}

// Used returns the canonical tape of this run.
func (t *Tape) Used() []uint64 { return t.used }

// Len is the number of choices consumed so far.
func (t *Tape) Len() int { return len(t.used) }

// RawStream returns the first n raw PRNG values a generate-mode tape with this
// state would draw; replaying them reproduces the generate-mode run exactly
// (both modes reduce the raw value mod n).
func RawStream(state uint64, n int) []uint64 {
	out := make([]uint64, n)
	for i := range out {
		out[i] = splitmix(&state)
	}
	return out
}
