// Package worker is built as a test binary (testing/synctest needs *testing.T)
// and run as a worker process by simdriver.
package worker
