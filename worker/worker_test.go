package worker

import (
	"testing"

	"verif/engines/execsim"
	"verif/sim"
)

var engines = map[string]sim.Engine{
	"execsim": func(env *sim.Env) {
		switch env.Prop {
		case "C10":
			execsim.RunC10(env)
		case "C13":
			execsim.RunC13(env)
		case "C12":
			execsim.RunC12(env)
		case "C05":
			execsim.RunC05(env)
		default:
			panic("execsim: unknown property " + env.Prop)
		}
	},
}

// TestWorker is the worker process entry point (started by simdriver).
func TestWorker(t *testing.T) { sim.Serve(t, engines) }
