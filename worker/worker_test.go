package worker

import (
	"testing"

	"verif/engines/execsim"
	"verif/engines/loadersim"
	"verif/engines/parsesim"
	"verif/engines/schedsim"
	"verif/sim"
)

var engines = map[string]sim.Engine{
	"execsim": func(env *sim.Env) {
		switch env.Prop {
		case "C10":
			execsim.RunC10(env)
		case "C13":
			execsim.RunC13(env)
		case "C12":
			execsim.RunC12(env)
		case "C05":
			execsim.RunC05(env)
		default:
			panic("execsim: unknown property " + env.Prop)
		}
	},
}

func init() {
	engines["loadersim"] = func(env *sim.Env) {
		switch env.Prop {
		case "C15":
			loadersim.RunC15(env)
		case "C16":
			loadersim.RunC16(env)
		case "C19":
			loadersim.RunC19(env)
		default:
			panic("loadersim: unknown property " + env.Prop)
		}
	}
}

func init() {
	engines["schedsim"] = func(env *sim.Env) {
		switch env.Prop {
		case "C11":
			schedsim.RunC11(env)
		default:
			panic("schedsim: unknown property " + env.Prop)
		}
	}
}

func init() {
	engines["parsesim"] = func(env *sim.Env) {
		switch env.Prop {
		case "C02":
			parsesim.RunC02(env)
		default:
			panic("parsesim: unknown property " + env.Prop)
		}
	}
}

// TestWorker is the worker process entry point (started by simdriver).
func TestWorker(t *testing.T) { sim.Serve(t, engines) }
