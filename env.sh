# sourced by every script: offline Go environment with the newer toolchain
export GOFLAGS=-mod=mod GOPROXY=off GOSUMDB=off GOTOOLCHAIN=local CGO_ENABLED=1
export PATH=/opt/veriftools/go1.26.8/bin:$PATH
export GOCACHE=${GOCACHE:-/root/.cache/go-build}
