module verif

go 1.26

replace github.com/CloudyKit/jet/v6 => /repo

require github.com/CloudyKit/jet/v6 v6.0.0-00010101000000-000000000000

require (
	github.com/CloudyKit/fastprinter v0.0.0-20200109182630-33d98a066a53 // indirect
	github.com/anishathalye/porcupine v1.3.0
)
