// Package schedsim: C11 - a Set and its templates are safe for concurrent use
// and give serial results (DESIGN.md §6 C11).
//
// 2-4 simulated clients (real goroutines, one at a time, seeded scheduler with
// a baton the race detector cannot see) issue mixes of GetTemplate, Parse,
// Execute, AddGlobal, LookupGlobal and in-memory loader edits on one Set.
package schedsim

import (
	"fmt"
	"io"
	"reflect"
	"regexp"
	"sort"
	"strconv"
	"strings"
	"sync"
	"time"

	jet "github.com/CloudyKit/jet/v6"
	"github.com/anishathalye/porcupine"

	"verif/gen"
	"verif/sim"
	"verif/simrt"
)

var reHex = regexp.MustCompile(`0x[0-9a-fA-F]+`)

func norm(s string) string { return reHex.ReplaceAllString(s, "0xPTR") }

// yieldLoader gives the baton back before every loader call and delegates to
// the REAL InMemLoader (its lock is under test). It keeps no state.
type yieldLoader struct {
	inner jet.Loader
	s     *simrt.Sched
}

func (l *yieldLoader) Exists(p string) bool {
	l.s.Yield("loader:Exists")
	return l.inner.Exists(p)
}

func (l *yieldLoader) Open(p string) (io.ReadCloser, error) {
	l.s.Yield("loader:Open")
	rc, err := l.inner.Open(p)
	if err != nil || rc == nil {
		return rc, err
	}
	return &yieldReader{rc, l.s}, nil
}

// yieldReader: every Read of an opened template is a scheduling point too (an edit of the loader
// can land between Open and Read, and between two Reads)
type yieldReader struct {
	io.ReadCloser
	s *simrt.Sched
}

func (r *yieldReader) Read(b []byte) (int, error) {
	r.s.Yield("loader:Read")
	return r.ReadCloser.Read(b)
}

// lockedCache is a user-supplied cache as an application would write it
// (mutex + map); it yields on entry.
type lockedCache struct {
	mu sync.Mutex
	m  map[string]*jet.Template
	s  *simrt.Sched
}

func (c *lockedCache) Get(p string) *jet.Template {
	c.s.Yield("cache:Get")
	c.mu.Lock()
	defer c.mu.Unlock()
	return c.m[p]
}

func (c *lockedCache) Put(p string, t *jet.Template) {
	c.s.Yield("cache:Put")
	c.mu.Lock()
	defer c.mu.Unlock()
	c.m[p] = t
}

// yieldWriter is a per-client writer; every Write is a scheduling point.
type yieldWriter struct {
	buf    []byte
	s      *simrt.Sched
	failAt int // this Write fails (0: none); s == nil: no scheduler (alone-runs)
	n      int
}

var errWriterFault = fmt.Errorf("INJ-write: simulated writer failure")

func (w *yieldWriter) Write(p []byte) (int, error) {
	if w.s != nil {
		w.s.Yield("writer:Write")
	}
	w.n++
	if w.failAt > 0 && w.n == w.failAt {
		return 0, errWriterFault
	}
	w.buf = append(w.buf, p...)
	return len(p), nil
}

// faultPlan decodes the per-execution fault number: 1-3 = that fail() call raises an error; 4-6 = the
// destination's 2nd / 4th / 6th Write fails
func faultPlan(at int) (fnAt, writeAt int) {
	if at >= 4 {
		return 0, (at - 3) * 2
	}
	return at, 0
}

// ---- operations

type opKind int

const (
	opGetExec opKind = iota
	opParseExec
	opAddGlobal
	opLookupGlobal
	opExecGlobals
	opLoaderSet
	opLoaderDelete
	opLoaderExists
	opLoaderOpen
	opExecVolatile
	opExecDump
	opGetOnly
	opExecRecursive
	opExecComputed
)

var opNames = []string{"GetTemplate+Execute", "Parse+Execute", "AddGlobal", "LookupGlobal", "Execute(globals)", "loader.Set", "loader.Delete", "loader.Exists", "loader.Open", "Execute(volatile)", "Execute(dump)", "GetTemplate", "Execute(recursive include)", "Execute(include computed from a variable)"}

type op struct {
	kind  opKind
	tmpl  string
	data  int
	fault int    // the fault-th fail() call of this execution raises an error (0: none)
	tag   string // what that error says
	key   string
	val   string
}

func (o op) String() string {
	return fmt.Sprintf("%s(%s%s%s)", opNames[o.kind], o.tmpl, o.key, func() string {
		if o.val != "" {
			return "=" + o.val
		}
		if o.fault > 3 {
			return fmt.Sprintf(" write#%d-fails", (o.fault-3)*2)
		}
		if o.fault > 0 {
			return fmt.Sprintf(" fail#%d", o.fault)
		}
		return ""
	}())
}

// rec is the outcome of one operation, recorded by the client that ran it.
type rec struct {
	client   int
	op       op
	call     int64
	ret      int64
	out      string
	err      string
	panicked string
	found    bool
	reads    []string // global reads observed in the output
}

type world struct {
	files    map[string]string
	stable   []string
	datas    []gen.DataSpec
	alone    map[string]string // key: tmpl|data -> "out\x00err"
	parseSrc map[string]string
}

// failPlan makes the at-th dynamic call of fail() in one execution raise an error that carries the
// execution's own tag (so an error that surfaces in somebody else's execution is recognisable).
type failPlan struct {
	at    int
	tag   string
	calls int
}

func vars(d gen.DataSpec, fp *failPlan) jet.VarMap {
	root := d.BuildRoot()
	vm := jet.VarMap{}
	vm.Set("root", root)
	vm.Set("item", root.Items[0])
	vm.Set("names", root.Names)
	vm.Set("none", []string{})
	vm.Set("s", "sv")
	vm.Set("n", 3)
	nop := jet.Func(func(a jet.Arguments) reflect.Value { return reflect.ValueOf("") })
	vm.SetFunc("fail", func(a jet.Arguments) reflect.Value {
		if fp != nil && fp.at > 0 {
			fp.calls++
			if fp.calls == fp.at {
				if fp.at%2 == 0 {
					panic("boom<" + fp.tag + ">") // a panic value that is not an error
				}
				panic(fmt.Errorf("boom<%s>", fp.tag))
			}
		}
		return reflect.ValueOf("")
	})
	vm.SetFunc("mark", nop)
	vm.SetFunc("letg", func(a jet.Arguments) reflect.Value {
		a.Runtime().LetGlobal(a.Get(0).String(), a.Get(1).Interface())
		return reflect.ValueOf("")
	})
	vm.Set("dec", func(n int) int { return n - 1 })
	vm.Set("plain", &plainStrRanger{items: []string{"pa"}})
	vm.Set("rng", &plainStrRanger{items: []string{"ra", "rb"}})
	vm.Set("rnd", litRenderer{})
	return vm
}

type plainStrRanger struct {
	items []string
	i     int
}

func (r *plainStrRanger) Range() (reflect.Value, reflect.Value, bool) {
	if r.i >= len(r.items) {
		return reflect.Value{}, reflect.Value{}, true
	}
	r.i++
	return reflect.ValueOf(r.i - 1), reflect.ValueOf(r.items[r.i-1]), false
}
func (r *plainStrRanger) ProvidesIndex() bool { return true }

type litRenderer struct{}

func (litRenderer) Render(rt *jet.Runtime) { rt.Writer.Write([]byte("(rnd)")) }

const globalsTmpl = "/zglobals.jet"
const dumpTmpl = "/zdump.jet"

// reentrantGlobal is a value whose Go-syntax form is computed with the help of the Set it is a global of.
type reentrantGlobal struct {
	set  *jet.Set
	mode int
}

func (g reentrantGlobal) GoString() string {
	if g.mode == 1 {
		g.set.AddGlobal("gside", "side")
	} else {
		g.set.LookupGlobal("gc")
	}
	return "reentrant-global"
}

const recTmpl = "/zrec.jet"
const recDepth = 60 // two clients at this depth have more than a hundred activations of one include statement in flight

func recExpected(d int) string {
	if d == 0 {
		return "[0]"
	}
	return fmt.Sprintf("[%d%s]", d, recExpected(d-1))
}

func RunC11(env *sim.Env) {
	t := env.Tape
	jet.VerifResetStructFieldCache()
	// ---- world
	opts := gen.SwarmOptions(t)
	// half of the worlds contain fail() calls: executions of those are run with a per-execution fault
	// plan, so that failing executions (try/catch, unwinding, Runtime release after an error) interleave too
	withFaults := t.Choose(2) == 1
	opts.Probes, opts.ProbeExpr, opts.Dump = withFaults, withFaults, false
	opts.MaxStmts = t.Range(2, 4)
	// no long lists or texts here: every Write is a scheduling point, and nested yields over 20-element
	// lists make one honest Execute cost hundreds of thousands of them (a false step-bound alarm in the
	// thorough tier, seed 6, was exactly that); C11 is about interleavings, sizes are the other checks' business
	opts.Big = false
	gw := gen.GenWorld(t, opts)
	w := &world{files: gw.Files, stable: gw.Mains, alone: map[string]string{}, parseSrc: map[string]string{}}
	w.files[globalsTmpl] = `<g0={{isset(g0) ? g0 : "none"}}><g1={{isset(g1) ? g1 : "none"}}><gc={{gc}}>`
	w.files[dumpTmpl] = `{{x := 1}}{{dump()}}`
	w.files["/zcomp.jet"] = `<{{include nm}}>`
	w.files["/zca.jet"], w.files["/zcb.jet"] = "[comp-a]", "[comp-b]"
	w.files[recTmpl] = `[{{.}}{{if . > 0}}{{include "/zrec.jet" dec(.)}}{{end}}]`
	if t.Choose(2) == 1 {
		// a layout, a page that extends it and imports a library of blocks without defining any itself,
		// and a sibling page: whoever loads the page first, the layout and the sibling keep their own blocks
		w.files["/zlay.jet"] = `{{block side()}}default-side{{end}}|{{block body()}}default-body{{end}}`
		w.files["/zwidgets.jet"] = `{{block side()}}widget-side{{end}}{{block extra()}}widget-extra{{end}}`
		w.files["/zpage.jet"] = `{{extends "/zlay.jet"}}{{import "/zwidgets.jet"}}`
		w.files["/zsib.jet"] = `{{extends "/zlay.jet"}}{{block body()}}sib-body{{end}}`
		w.stable = append(w.stable, "/zlay.jet", "/zpage.jet", "/zsib.jet")
		env.Stat("probe:layout_page_with_import_and_no_own_block_sibling", 1)
	}
	w.files["/v0.jet"] = "[v0#1]"
	w.files["/v1.jet"] = "[v1#1]{{include \"/v0.jet\"}}"
	w.datas = []gen.DataSpec{gen.GenData(t, 1), gen.GenData(t, 2)}
	for i := range w.datas {
		w.datas[i].Big = 0
	}
	// one template is executed without data: a Runtime that an execution with data has released must not
	// lend its '.' to it
	const nilDataTmpl = "/znil.jet"
	w.files[nilDataTmpl] = `<ctx:{{ isset(.Names) ? "somebody's" : "none" }}{{ isset(.) ? "!" : "" }}>`
	w.stable = append(w.stable, nilDataTmpl)
	nilData := w.datas[0]
	nilData.Nil = true
	w.datas = append(w.datas, nilData)
	nClients := t.Range(2, 4)
	useLockedCache := t.Choose(3) == 2
	devMode := t.Choose(6) == 5

	// ---- alone-runs (before the simulation starts): fresh Set, fresh pools, no other client
	pools := &simrt.Pools{Tape: t, Policy: simrt.PoolFresh}
	unhook := pools.Install()
	defer unhook()
	newLoader := func() *jet.InMemLoader {
		l := jet.NewInMemLoader()
		for _, p := range sim.SortedKeys(w.files) {
			l.Set(p, w.files[p])
		}
		return l
	}
	aloneExec := func(set *jet.Set, name string, d gen.DataSpec, parseSrc string, at int) (string, bool) {
		var tm *jet.Template
		var err error
		if parseSrc != "" {
			tm, err = set.Parse(name, parseSrc)
		} else {
			tm, err = set.GetTemplate(name)
		}
		if err != nil {
			return "", false
		}
		fnAt, writeAt := faultPlan(at)
		buf := &yieldWriter{failAt: writeAt}
		var xerr error
		fp := &failPlan{at: fnAt, tag: "TAG"}
		if pc := sim.Guard(func() { xerr = tm.Execute(buf, vars(d, fp), d.Data()) }); pc != nil {
			return "", false
		}
		if fnAt > 0 && fp.calls < fnAt {
			return "", false // this execution does not reach that many fail() calls
		}
		if writeAt > 0 && buf.n < writeAt {
			return "", false // nor that many writes
		}
		e := ""
		if xerr != nil {
			e = xerr.Error()
		}
		return norm(string(buf.buf)) + "\x00" + norm(e), true
	}
	for _, name := range w.stable {
		for di, d := range w.datas {
			if d.Nil != (name == nilDataTmpl) {
				continue
			}
			for at := 0; at <= 6; at++ {
				if at > 0 && at <= 3 && !withFaults {
					continue
				}
				set := jet.NewSet(newLoader())
				set.AddGlobal("gc", "const")
				if r, ok := aloneExec(set, name, d, "", at); ok {
					w.alone[fmt.Sprintf("%s|%d|%d", name, di, at)] = r
				}
			}
		}
	}
	if len(w.alone) == 0 {
		env.Res.Invalid = "world does not parse"
		return
	}
	// per-client Parse sources referring to shared files
	for c := 0; c < nClients; c++ {
		name := fmt.Sprintf("/parsed%d.jet", c)
		src := fmt.Sprintf("[parsed%d]{{include %q item}}", c, "/v0const.jet")
		w.parseSrc[name] = src
	}
	w.files["/v0const.jet"] = "<const:{{.Name}}>"
	for name, src := range w.parseSrc {
		for di, d := range w.datas {
			if d.Nil {
				continue
			}
			set := jet.NewSet(newLoader())
			if r, ok := aloneExec(set, name, d, src, 0); ok {
				w.alone[fmt.Sprintf("%s|%d|0", name, di)] = r
			}
		}
	}

	// ---- the shared Set
	sched := simrt.NewSched(t, nClients)
	pools.Policy = simrt.PoolAdversarial
	sched.Pools = pools
	mem := newLoader()
	yl := &yieldLoader{inner: mem, s: sched}
	sopts := []jet.Option{}
	if useLockedCache {
		sopts = append(sopts, jet.WithCache(&lockedCache{m: map[string]*jet.Template{}, s: sched}))
	}
	if devMode {
		sopts = append(sopts, jet.InDevelopmentMode())
	}
	set := jet.NewSet(yl, sopts...)
	set.AddGlobal("gc", "const")
	if t.Choose(6) == 5 {
		// a global that was registered with a nil value: dump() fails on it - inside its critical section
		set.AddGlobal("gnil", nil)
		env.Stat("probe:global_registered_with_nil_value", 1)
	}

	if t.Choose(3) == 2 {
		// a global whose %#v form calls back into the Set (a GoStringer that looks a global up, or
		// registers one again): dump() must not hold the Set's globals lock while it formats values
		set.AddGlobal("gside", "side")
		set.AddGlobal("gfmt", reentrantGlobal{set, t.Choose(2)})
		env.Stat("probe:global_whose_formatting_calls_back_into_the_set", 1)
	}

	// ---- operation lists (drawn before the clients start: clients never touch the tape)
	stableKeys := sim.SortedKeys(w.alone)
	plans := make([][]op, nClients)
	nVer := map[string]int{"/v0.jet": 1, "/v1.jet": 1}
	gseq := 0
	for c := range plans {
		n := t.Range(2, 12)
		for i := 0; i < n; i++ {
			var o op
			switch t.Weighted(6, 2, 3, 2, 3, 3, 1, 1, 2, 3, 1, 2, 2, 2, 2) {
			case 0:
				k := stableKeys[t.Choose(len(stableKeys))]
				parts := strings.Split(k, "|")
				o = op{kind: opGetExec, tmpl: parts[0]}
				o.data, _ = strconv.Atoi(parts[1])
				o.fault, _ = strconv.Atoi(parts[2])
				o.tag = fmt.Sprintf("c%d.%d", c, i)
				if _, isParse := w.parseSrc[parts[0]]; isParse {
					o.kind = opParseExec
					o.tmpl = fmt.Sprintf("/parsed%d.jet", c)
				}
			case 1:
				o = op{kind: opParseExec, tmpl: fmt.Sprintf("/parsed%d.jet", c), data: t.Choose(2)}
			case 2:
				gseq++
				o = op{kind: opAddGlobal, key: fmt.Sprintf("g%d", t.Choose(2)), val: fmt.Sprintf("G%d", gseq)}
			case 3:
				o = op{kind: opLookupGlobal, key: fmt.Sprintf("g%d", t.Choose(2))}
			case 4:
				o = op{kind: opExecGlobals, tmpl: globalsTmpl}
			case 5:
				p := fmt.Sprintf("/v%d.jet", t.Choose(2))
				nVer[p]++
				v := fmt.Sprintf("[%s#%d]", strings.TrimSuffix(strings.TrimPrefix(p, "/"), ".jet"), nVer[p])
				if p == "/v1.jet" {
					v += "{{include \"/v0.jet\"}}"
				}
				o = op{kind: opLoaderSet, key: p, val: v}
			case 6:
				o = op{kind: opLoaderDelete, key: "/x.jet"}
			case 7:
				o = op{kind: opLoaderExists, key: []string{"/x.jet", "/v0.jet"}[t.Choose(2)]}
			case 8:
				o = op{kind: opLoaderOpen, key: []string{"/x.jet", "/v0.jet"}[t.Choose(2)]}
			case 9:
				o = op{kind: opExecVolatile, tmpl: fmt.Sprintf("/v%d.jet", t.Choose(2))}
			case 10:
				o = op{kind: opExecDump, tmpl: dumpTmpl}
			case 14:
				// one include statement, executed by several clients at once with different names
				o = op{kind: opExecComputed, tmpl: "/zcomp.jet", key: []string{"/zca.jet", "/zcb.jet"}[t.Choose(2)]}
			case 12:
				o = op{kind: opExecRecursive, tmpl: recTmpl}
			case 13:
				// a template that other clients store and delete: may be missing, may be any stored version
				o = op{kind: opExecVolatile, tmpl: "/x.jet"}
			case 11:
				k := stableKeys[t.Choose(len(stableKeys))]
				o = op{kind: opGetOnly, tmpl: strings.Split(k, "|")[0]}
				if _, isParse := w.parseSrc[o.tmpl]; isParse {
					o.tmpl = w.stable[0]
				}
			}
			if o.kind == opLoaderSet && o.key == "/x.jet" {
				o.val = "X" + o.val
			}
			plans[c] = append(plans[c], o)
		}
		// some writes to /x.jet so Exists/Open/Delete have something to disagree about
		if t.Choose(2) == 1 {
			gseq++
			plans[c] = append(plans[c], op{kind: opLoaderSet, key: "/x.jet", val: fmt.Sprintf("X%d", gseq)})
		}
	}

	// ---- run
	recs := make([][]rec, nClients)
	jet.VerifHooks.Yield = sched.Yield
	defer func() { jet.VerifHooks.Yield = nil }()
	bodies := make([]func(*simrt.Client), nClients)
	for c := range bodies {
		c := c
		bodies[c] = func(cl *simrt.Client) {
			for _, o := range plans[c] {
				recs[c] = append(recs[c], runOp(sched, set, mem, w, c, o))
			}
		}
	}
	// the alone-runs above filled the process-wide struct field cache: empty it again so that the
	// clients race on its first population
	jet.VerifResetStructFieldCache()
	t0 := time.Now()
	sched.Run(bodies)
	_ = t0

	// ---- oracles (main goroutine, after every client was joined)
	all := []rec{}
	for _, rs := range recs {
		all = append(all, rs...)
	}
	sort.Slice(all, func(i, j int) bool { return all[i].call < all[j].call })
	var hist []string
	for _, r := range all {
		hist = append(hist, fmt.Sprintf("c%d:%s", r.client, r.op))
		env.Event("%d-%d c%d %s -> %016x err=%q", r.call, r.ret, r.client, r.op, sim.HashString(norm(r.out)), norm(r.err))
	}
	for _, cl := range sched.Clients {
		for i, n := range cl.Sites {
			if n > 0 {
				env.Stat("yield_sites:"+simrt.SiteNames[i], n)
			}
		}
	}
	env.Stat("counters:yields", int64(sched.Steps))
	env.Stat("counters:context_switches", int64(sched.Switches))
	env.Stat("counters:operations", int64(len(all)))
	if sched.Exceeded {
		env.Violate("liveness", "step-bound", "the clients did not finish within %d scheduling steps", sched.MaxSteps)
	}
	// was this exact version marker written (Set invoked) before the given moment? (#1 is the initial content)
	versionWritten := func(marker string, before int64) bool {
		if strings.HasSuffix(marker, "#1]") {
			return true
		}
		for _, r := range all {
			if r.op.kind == opLoaderSet && strings.HasPrefix(r.op.val, marker) && r.call < before {
				return true
			}
		}
		return false
	}
	for _, r := range all {
		if r.panicked != "" {
			env.Violate("serial-results", "panic:"+opNames[r.op.kind], "client %d: %s panicked: %s\nhistory: %s", r.client, r.op, r.panicked, strings.Join(hist, " "))
			continue
		}
		switch r.op.kind {
		case opGetExec, opParseExec:
			want, ok := w.alone[fmt.Sprintf("%s|%d|%d", r.op.tmpl, r.op.data, r.op.fault)]
			if !ok {
				continue
			}
			want = strings.ReplaceAll(want, "TAG", r.op.tag)
			if r.op.fault > 3 {
				env.Stat("fault:writer_error_in_concurrent_execution", 1)
			} else if r.op.fault > 0 {
				env.Stat("fault:function_error_in_concurrent_execution", 1)
			}
			got := norm(r.out) + "\x00" + norm(r.err)
			if got != want {
				env.Violate("serial-results", "serial-mismatch:"+opNames[r.op.kind], "client %d: %s (data %d) differs from its alone-run.\nalone:      %s\nconcurrent: %s\nhistory: %s", r.client, r.op, r.op.data, sim.Q(strings.ReplaceAll(want, "\x00", " | err=")), sim.Q(strings.ReplaceAll(got, "\x00", " | err=")), strings.Join(hist, " "))
			}
		case opExecComputed:
			want := map[string]string{"/zca.jet": "<[comp-a]>", "/zcb.jet": "<[comp-b]>"}[r.op.key]
			if r.out != want || r.err != "" {
				env.Violate("serial-results", "serial-mismatch:"+opNames[r.op.kind], "client %d: {{include nm}} with nm=%q rendered %s (error %q); alone it renders %s\nhistory: %s", r.client, r.op.key, sim.Q(r.out), r.err, sim.Q(want), strings.Join(hist, " "))
			}
		case opExecRecursive:
			if got := norm(r.out) + "\x00" + norm(r.err); got != recExpected(recDepth)+"\x00" {
				env.Violate("serial-results", "serial-mismatch:"+opNames[r.op.kind], "client %d: a template that includes itself %d levels deep rendered %s (error %q); alone it renders %s\nhistory: %s", r.client, recDepth, sim.Q(r.out), r.err, sim.Q(recExpected(recDepth)), strings.Join(hist, " "))
			}
		case opExecVolatile:
			if r.err != "" {
				continue // the file may legitimately be in a state a concurrent edit produced only later
			}
			if r.op.tmpl == "/x.jet" {
				ok := false
				for _, q := range all {
					if q.op.kind == opLoaderSet && q.op.key == "/x.jet" && q.op.val == r.out && q.call < r.ret {
						ok = true
					}
				}
				if !ok {
					env.Violate("serial-results", "torn-version", "client %d: %s rendered %s, which nobody had stored when it returned\nhistory: %s", r.client, r.op, sim.Q(r.out), strings.Join(hist, " "))
				}
				continue
			}
			for _, m := range reVer.FindAllStringSubmatch(r.out, -1) {
				if !versionWritten(m[0], r.ret) {
					env.Violate("serial-results", "torn-version", "client %d: %s rendered %s, a version nobody had written when it returned\nhistory: %s", r.client, r.op, m[0], strings.Join(hist, " "))
				}
			}
			if rest := reVer.ReplaceAllString(r.out, ""); rest != "" {
				env.Violate("serial-results", "torn-version", "client %d: %s rendered bytes nobody wrote: %s", r.client, r.op, sim.Q(r.out))
			}
		}
	}
	// linearizability of the globals (register per key) and of the in-memory loader (map)
	checkLinearizable(env, all, hist)

	env.Stat("probe:runtime_handed_across_clients", pools.RtReusedCross)
	env.Stat("pool:runtime_reused", pools.RtReused)
	env.Stat("pool:ranger_reused", pools.RgReused)
	env.Stat("probe:development_mode", int64(b2i(devMode)))
	env.Stat("probe:user_supplied_locked_cache", int64(b2i(useLockedCache)))
	env.Stat("probe:pct_strategy", int64(b2i(sched.Strategy == simrt.StratPCT)))
	env.Reach("schedules", fmt.Sprintf("%016x", sched.SwitchHash))
	env.Reach("operation_histories", fmt.Sprintf("%016x", sim.HashString(strings.Join(hist, ";"))))
	env.Res.Nontrivial = sched.Switches > 1 && len(all) > 1
	env.Res.Sig = fmt.Sprintf("%016x", sched.SwitchHash^sim.HashString(strings.Join(hist, ";")))
	env.Res.Sample = fmt.Sprintf("%d clients, %d yields, %d context switches, dev=%v lockedCache=%v\nschedule-ordered operations: %s\nworld:\n%s", nClients, sched.Steps, sched.Switches, devMode, useLockedCache, strings.Join(hist, " "), sim.Clip(gw.String(), 1200))
}

var reVer = regexp.MustCompile(`\[(v\d)#(\d+)\]`)
var reGlobalRead = regexp.MustCompile(`<(g\d)=([^>]*)>`)

func b2i(b bool) int {
	if b {
		return 1
	}
	return 0
}

// runOp executes one operation on the calling client's goroutine. It touches
// only the client's own data, the Set under test and the scheduler's norace API.
func runOp(s *simrt.Sched, set *jet.Set, mem *jet.InMemLoader, w *world, c int, o op) (r rec) {
	r = rec{client: c, op: o}
	r.call = s.Seq()
	defer func() { r.ret = s.Seq() }()
	guard := func(f func()) {
		if pc := sim.Guard(f); pc != nil {
			r.panicked = sim.Clip(pc.String(), 400)
		}
	}
	exec := func(tm *jet.Template, d gen.DataSpec) {
		fnAt, writeAt := faultPlan(o.fault)
		wr := &yieldWriter{s: s, failAt: writeAt}
		err := tm.Execute(wr, vars(d, &failPlan{at: fnAt, tag: o.tag}), d.Data())
		r.out = string(wr.buf)
		if err != nil {
			r.err = err.Error()
		}
	}
	switch o.kind {
	case opExecComputed:
		guard(func() {
			tm, err := set.GetTemplate(o.tmpl)
			if err != nil {
				r.err = "GetTemplate: " + err.Error()
				return
			}
			wr := &yieldWriter{s: s}
			vm := vars(w.datas[0], nil)
			vm.Set("nm", o.key)
			if err := tm.Execute(wr, vm, nil); err != nil {
				r.err = err.Error()
			}
			r.out = string(wr.buf)
		})
	case opExecRecursive:
		guard(func() {
			tm, err := set.GetTemplate(o.tmpl)
			if err != nil {
				r.err = "GetTemplate: " + err.Error()
				return
			}
			wr := &yieldWriter{s: s}
			if err := tm.Execute(wr, vars(w.datas[0], nil), recDepth); err != nil {
				r.err = err.Error()
			}
			r.out = string(wr.buf)
		})
	case opGetExec, opExecGlobals, opExecVolatile, opExecDump, opGetOnly:
		guard(func() {
			tm, err := set.GetTemplate(o.tmpl)
			if err != nil {
				r.err = "GetTemplate: " + err.Error()
				return
			}
			if o.kind == opGetOnly {
				return
			}
			exec(tm, w.datas[o.data])
		})
		if o.kind == opExecGlobals {
			for _, m := range reGlobalRead.FindAllStringSubmatch(r.out, -1) {
				r.reads = append(r.reads, m[1]+"="+m[2])
			}
		}
	case opParseExec:
		guard(func() {
			tm, err := set.Parse(o.tmpl, w.parseSrc[o.tmpl])
			if err != nil {
				r.err = "Parse: " + err.Error()
				return
			}
			exec(tm, w.datas[o.data])
		})
	case opAddGlobal:
		guard(func() { set.AddGlobal(o.key, o.val) })
	case opLookupGlobal:
		guard(func() {
			v, ok := set.LookupGlobal(o.key)
			r.found = ok
			if ok {
				if rv, isv := v.(reflect.Value); isv {
					r.out = fmt.Sprint(rv.Interface())
				} else {
					r.out = fmt.Sprint(v)
				}
			}
		})
	case opLoaderSet:
		guard(func() { mem.Set(o.key, o.val) })
	case opLoaderDelete:
		guard(func() { mem.Delete(o.key) })
	case opLoaderExists:
		guard(func() { r.found = mem.Exists(o.key) })
	case opLoaderOpen:
		guard(func() {
			rc, err := mem.Open(o.key)
			if err != nil {
				r.err = "open"
				return
			}
			b, _ := io.ReadAll(rc)
			rc.Close()
			r.found = true
			r.out = string(b)
		})
	}
	return r
}

// ---- porcupine models

type regIn struct {
	write bool
	val   string
}

type mapIn struct {
	kind opKind
	val  string
}

type mapOut struct {
	found bool
	val   string
}

func checkLinearizable(env *sim.Env, all []rec, hist []string) {
	// globals: register per key. "none" = never written.
	regModel := porcupine.Model{
		Init: func() interface{} { return "none" },
		Step: func(state, input, output interface{}) (bool, interface{}) {
			in := input.(regIn)
			if in.write {
				return true, in.val
			}
			return output.(string) == state.(string), state
		},
		Equal: func(a, b interface{}) bool { return a.(string) == b.(string) },
	}
	byKey := map[string][]porcupine.Operation{}
	for _, r := range all {
		switch r.op.kind {
		case opAddGlobal:
			byKey[r.op.key] = append(byKey[r.op.key], porcupine.Operation{ClientId: r.client, Input: regIn{true, r.op.val}, Call: r.call, Output: "", Return: r.ret})
		case opLookupGlobal:
			out := "none"
			if r.found {
				out = r.out
			}
			byKey[r.op.key] = append(byKey[r.op.key], porcupine.Operation{ClientId: r.client, Input: regIn{}, Call: r.call, Output: out, Return: r.ret})
		case opExecGlobals:
			for _, rd := range r.reads {
				kv := strings.SplitN(rd, "=", 2)
				byKey[kv[0]] = append(byKey[kv[0]], porcupine.Operation{ClientId: r.client, Input: regIn{}, Call: r.call, Output: kv[1], Return: r.ret})
			}
		}
	}
	for _, k := range sim.SortedKeys(byKey) {
		ops := byKey[k]
		if len(ops) > 40 {
			ops = ops[:40]
		}
		// porcupine wants distinct client ids per concurrent operation: reads inside one Execute overlap themselves
		for i := range ops {
			ops[i].ClientId = i
		}
		res := porcupine.CheckOperationsTimeout(regModel, ops, 5*time.Second)
		env.Stat("porcupine:"+string(res), 1)
		if res == porcupine.Illegal {
			env.Violate("linearizable", "nonlinearizable:globals", "the history of AddGlobal/LookupGlobal/{{%s}} operations on global %q is not linearizable against a register: %s\nhistory: %s", k, k, fmtOps(ops), strings.Join(hist, " "))
		}
	}
	// in-memory loader: map per path
	mapModel := porcupine.Model{
		Init: func() interface{} { return "\x00absent" },
		Step: func(state, input, output interface{}) (bool, interface{}) {
			in := input.(mapIn)
			st := state.(string)
			switch in.kind {
			case opLoaderSet:
				return true, in.val
			case opLoaderDelete:
				return true, "\x00absent"
			case opLoaderExists:
				return output.(mapOut).found == (st != "\x00absent"), st
			case opLoaderOpen:
				o := output.(mapOut)
				if st == "\x00absent" {
					return !o.found, st
				}
				return o.found && o.val == st, st
			}
			return false, st
		},
		Equal: func(a, b interface{}) bool { return a.(string) == b.(string) },
	}
	byPath := map[string][]porcupine.Operation{}
	for _, r := range all {
		switch r.op.kind {
		case opLoaderSet, opLoaderDelete, opLoaderExists, opLoaderOpen:
			if r.op.key != "/x.jet" {
				continue // only /x.jet starts absent and is never touched by the Set itself
			}
			byPath[r.op.key] = append(byPath[r.op.key], porcupine.Operation{ClientId: r.client, Input: mapIn{r.op.kind, r.op.val}, Call: r.call, Output: mapOut{r.found, r.out}, Return: r.ret})
		}
	}
	for _, k := range sim.SortedKeys(byPath) {
		ops := byPath[k]
		if len(ops) > 40 {
			ops = ops[:40]
		}
		res := porcupine.CheckOperationsTimeout(mapModel, ops, 5*time.Second)
		env.Stat("porcupine:"+string(res), 1)
		if res == porcupine.Illegal {
			env.Violate("linearizable", "nonlinearizable:inmemloader", "the history of Set/Delete/Exists/Open on %s is not linearizable against a map: %s\nhistory: %s", k, fmtOps(ops), strings.Join(hist, " "))
		}
	}
}

func fmtOps(ops []porcupine.Operation) string {
	var parts []string
	for _, o := range ops {
		parts = append(parts, fmt.Sprintf("[%d..%d] %+v -> %+v", o.Call, o.Return, o.Input, o.Output))
	}
	return strings.Join(parts, "; ")
}
