package execsim

import (
	"fmt"
	"io"
	"regexp"
	"strings"

	"verif/gen"
	"verif/sim"
	"verif/simrt"
)

// C13 — try is all-or-nothing and leaves no trace of a failed body
// (DESIGN.md §6 C13). One run = one world with one instrumented try statement;
// the check enumerates EVERY dynamic probe call inside its body as the
// failing one.

type tryInstance struct {
	body   int  // dynamic call index of the body's first statement (mark 9003); 0 if not reached
	b, e   int  // writer offsets of the statement in the fault-free output
	nested bool // executed while another try (or exec) had swapped the writer
	first  int  // dynamic call index of its mark(begin)
	last   int  // dynamic call index of its mark(end)
}

// instances extracts the dynamic instances of the instrumented try from a
// probe log.
func instances(p *Probes, nestedAt map[int]bool) (ins []tryInstance, ok bool) {
	open := -1
	for i, id := range p.IDs {
		switch id {
		case gen.MarkTryBegin:
			if open >= 0 {
				return nil, false // recursive instance: not judged
			}
			open = len(ins)
			ins = append(ins, tryInstance{b: p.Offs[i], first: i + 1, nested: nestedAt[i+1]})
		case gen.MarkTryBody:
			if open >= 0 && ins[open].body == 0 {
				ins[open].body = i + 1
			}
		case gen.MarkTryEnd:
			if open < 0 {
				return nil, false
			}
			ins[open].e = p.Offs[i]
			ins[open].last = i + 1
			if nestedAt[i+1] {
				ins[open].nested = true
			}
			open = -1
		}
	}
	return ins, open < 0
}

// text markers ([t03]) and state-probe labels (<ctx:) - what must not appear in the error text the
// catch variable prints; the wording of the error itself is free
var reMarker = regexp.MustCompile(`\[[a-z]+[0-9]+\]|\[CATCH\]|<[a-z]+:`)

// returnClearWorks calibrates the one thing catch form 3 relies on beyond the property: that an empty
// if statement drops a pending return value, so that later range statements are not cut short. On a
// tree where that is not so, form 3 is not generated (its twin comparison would not be sound).
func returnClearWorks() bool {
	render := func(src string) string {
		set, _ := NewSet(map[string]string{"/cal.jet": src})
		tm, err := set.GetTemplate("/cal.jet")
		if err != nil {
			return "parse-error"
		}
		var b strings.Builder
		var xerr error
		if pc := sim.Guard(func() { xerr = tm.Execute(&b, nil, nil) }); pc != nil || xerr != nil {
			return "error"
		}
		return b.String()
	}
	with := render(`{{range i := slice("a","b")}}{{i}}{{try}}{{nosuch}}{{catch e}}{{return "rv"}}{{end}}{{if true}}{{end}}{{end}}{{range slice("c","d")}}{{.}}{{end}}|{{isset(e)}}`)
	return with == "01cd|false" || with == "01cd|true" // the last part is the property's business, not the calibration's
}

func RunC13(env *sim.Env) {
	defer DropIfTooExpensive(env)
	t := env.Tape
	if t.Choose(10) == 9 {
		// one run in ten is a re-entrant program judged by a reference model (c13rec.go)
		runC13Recursive(env)
		return
	}
	opts := gen.SwarmOptions(t)
	opts.TargetTry = true
	opts.Probes = true
	opts.Try = true
	opts.Dump = false // dump output embeds scope contents; the state probes are explicit instead
	opts.CatchForm = t.Choose(3)
	if t.Choose(4) > 0 {
		opts.CatchForm = 2
		if t.Choose(4) == 0 && returnClearWorks() {
			opts.CatchForm = 3
			env.Stat("probe:return_statement_in_catch_body", 1)
		} else if t.Choose(6) == 0 {
			opts.CatchForm = 4
			env.Stat("probe:empty_catch_body_with_variable", 1)
		}
	}
	world := gen.GenWorld(t, opts)
	data := gen.GenData(t, 1)
	pools, un := installPools(env, simrt.PoolLIFO)
	defer un()

	// twin world: the wrapper removed, body renders outside try
	twin := map[string]string{}
	hasTarget := false
	for p, src := range world.Files {
		if strings.Contains(src, gen.TargetOpen) {
			hasTarget = true
		}
		src = strings.ReplaceAll(src, gen.TargetOpen, "{{mark(9001)}}{{mark(9003)}}")
		src = strings.ReplaceAll(src, gen.TargetClose(opts.CatchForm), "{{mark(9002)}}")
		twin[p] = src
	}
	if !hasTarget {
		env.Res.Invalid = "no instrumented try placed"
		return
	}
	set, _ := NewSet(world.Files)
	twinSet, _ := NewSet(twin)

	probeSite := map[int]gen.ProbeSite{}
	for _, ps := range world.Probes {
		probeSite[ps.ID] = ps
	}
	absorbed := func(id int) bool {
		ps := probeSite[id]
		seenTarget := false
		for _, e := range ps.Encl {
			if e == "TARGET" {
				seenTarget = true
			} else if seenTarget && e == "try" {
				return true
			}
		}
		return false
	}

	judged, faultsTried, skippedNested := 0, 0, 0
	var sigParts []string
	for _, m := range world.Mains {
		call := Call{Tmpl: m, Data: data}
		var lastWriters []io.Writer
		run := func(s *jetSet, c Call) (Outcome, map[int]bool) {
			nested := map[int]bool{}
			o, ws := execWatch(s, c, nested)
			lastWriters = ws
			pools.AbandonOutstanding()
			pools.MarkLastReleased(o.Failed())
			return o, nested
		}
		stepsBefore := Steps()
		O, nestedAt := run(&jetSet{set}, call)
		costO := Steps() - stepsBefore
		writersO := lastWriters
		if O.Failed() {
			continue // a world whose fault-free run fails is not judged here
		}
		ins, ok := instances(O.Probes, nestedAt)
		if !ok || len(ins) == 0 {
			continue
		}
		if O.Probes.Calls > 400 || len(O.Out) > 1<<16 || costO > MaxStepsPerExecution {
			env.Stat("counters:mains_skipped_too_large", 1)
			continue
		}
		env.Event("main %s instances=%d calls=%d", m, len(ins), O.Probes.Calls)
		// (a) fault-free: body renders exactly what it renders outside try
		T, tnested := run(&jetSet{twinSet}, call)
		tins, tok := instances(T.Probes, tnested)
		if T.Failed() || !tok || len(tins) != len(ins) {
			// the twin differs structurally (e.g. body declarations now visible later): not judged
			env.Stat("counters:twin_not_comparable", 1)
		} else {
			for j := range ins {
				if ins[j].nested || tins[j].nested {
					continue
				}
				got := O.Out[ins[j].b:ins[j].e]
				want := T.Out[tins[j].b:tins[j].e]
				if Norm(got) != Norm(want) {
					env.Violate("success-identical-to-untried", "segment-differs", "fault-free: instance %d of the try in %s renders %s but its body renders %s outside try", j, m, sim.Q(got), sim.Q(want))
				}
			}
		}
		// (b)-(d): every dynamic probe call inside the body as the failing one
		reruns, doubles := 0, 0
		maxFP := 40
		if env.Tier == "thorough" {
			maxFP = 120
		}
		stride := 1
		if O.Probes.Calls > maxFP {
			stride = (O.Probes.Calls + maxFP - 1) / maxFP
		}
		for k := 1; k <= O.Probes.Calls; k++ {
			id := O.Probes.IDs[k-1]
			if id == gen.MarkTryBegin || id == gen.MarkTryEnd || id == gen.MarkTryBody || id == gen.MarkRoot {
				continue
			}
			if stride > 1 && k%stride != 0 {
				continue
			}
			j := -1
			for x := range ins {
				if k > ins[x].first && k < ins[x].last {
					j = x
				}
			}
			if j < 0 {
				continue
			}
			if ins[j].nested {
				skippedNested++
				continue
			}
			faultsTried++
			// what the failing function raises: usually an error; sometimes a Go runtime error, or (when the
			// catch body does not call .Error() on it) a plain string - try absorbs all of them
			kind := 0
			switch {
			case k%4 == 3:
				kind = 2
			case k%4 == 1 && (opts.CatchForm < 2 || opts.CatchForm == 4):
				kind = 1
			case k%4 == 2:
				kind = 3 // an error that wraps another one: the catch variable holds the error raised, not its cause
			}
			fc := Call{Tmpl: m, Data: data, FaultProbe: k, FaultKind: kind}
			F, _ := run(&jetSet{set}, fc)
			env.Event("fault k=%d id=%d inst=%d -> %016x", k, id, j, sim.HashString(F.Key()))
			env.Stat("fault:function_"+[]string{"panics_with_error", "panics_with_string", "hits_go_runtime_error", "panics_with_wrapping_error"}[kind]+"_inside_try_body", 1)
			// no trace in later executions either: the fault-free run repeated right after must be unchanged
			if reruns < 10 {
				reruns++
				R, _ := run(&jetSet{set}, call)
				if R.Key() != O.Key() {
					env.Violate("no-trace-later", "later-execution-differs", "after the execution that failed inside the try body (call %d = fail(%d)), the fault-free execution of %s renders differently than before.\nbefore: %s\nafter:  %s", k, id, m, O.Describe(), R.Describe())
				}
			}
			// a second failure in the same execution: a call that happens after the first one
			// (typically in the catch body of an inner try that absorbed it)
			if doubles < 6 && F.Probes.Calls > k {
				for _, k2 := range []int{k + 1, F.Probes.Calls} {
					if k2 <= k || k2 > F.Probes.Calls || (k2 == F.Probes.Calls && k2 == k+1 && doubles%2 == 1) {
						continue
					}
					id2 := F.Probes.IDs[k2-1]
					if id2 == gen.MarkTryBegin || id2 == gen.MarkTryEnd || id2 == gen.MarkTryBody || id2 == gen.MarkRoot {
						continue
					}
					// only second faults that still lie inside this instance of the statement
					endK := 0
					for x, idx := range F.Probes.IDs {
						if idx == gen.MarkTryEnd && x+1 > k {
							endK = x + 1
							break
						}
					}
					if endK == 0 || k2 >= endK {
						continue
					}
					doubles++
					D, _ := run(&jetSet{set}, Call{Tmpl: m, Data: data, FaultProbe: k, FaultProbe2: k2})
					env.Stat("fault:second_failure_in_same_execution", 1)
					dout := Norm(D.Out)
					dpre, dpost := Norm(O.Out[:ins[j].b]), Norm(O.Out[ins[j].e:])
					if D.Err == "" && D.Panic == nil && D.Probes.NFired == 2 {
						if !strings.HasPrefix(dout, dpre) || !strings.HasSuffix(dout, dpost) || len(dout) < len(dpre)+len(dpost) {
							env.Violate("spliced-output", "double-fault:surroundings-differ", "two failures in one execution (calls %d and %d, the second after the first was absorbed): what is rendered before/after the try statement differs from the fault-free run.\nfault-free: %s\ngot:        %s", k, k2, sim.Q(Norm(O.Out)), sim.Q(dout))
						}
					}
					R, _ := run(&jetSet{set}, call)
					if R.Key() != O.Key() {
						env.Violate("no-trace-later", "later-execution-differs", "after an execution with two failures inside the try body (calls %d and %d), the fault-free execution of %s renders differently than before.\nbefore: %s\nafter:  %s", k, k2, m, O.Describe(), R.Describe())
					}
				}
			}
			if !F.Probes.Fired {
				env.Violate("determinism", "fault-not-reached", "dynamic call %d was reached in the fault-free run but not in the faulted run of %s", k, m)
				continue
			}
			ps := probeSite[id]
			for _, e := range ps.Encl {
				env.Stat("probe:failure_below_"+e, 1)
			}
			pre, post := Norm(O.Out[:ins[j].b]), Norm(O.Out[ins[j].e:])
			out := Norm(F.Out)
			if F.Err != "" || F.Panic != nil {
				env.Violate("error-contained", "escaped", "a failure inside the try body escaped the try statement: %s (fault: call %d = fail(%d) in %s line %d, under %v)", F.Describe(), k, id, ps.File, ps.Line, ps.Encl)
				continue
			}
			if !strings.HasPrefix(out, pre) {
				env.Violate("spliced-output", "prefix-differs", "output before the try statement changed under a fault inside it. %s", firstDiff(pre, out))
				continue
			}
			if len(out) < len(pre)+len(post) || !strings.HasSuffix(out, post) {
				// what follows the try differs: classify by the state probe that differs first
				rest := out[len(pre):]
				// align from the end
				i := 0
				for i < len(rest) && i < len(post) && rest[len(rest)-1-i] == post[len(post)-1-i] {
					i++
				}
				// find which labelled probe the first difference (from the front of post) falls in
				what := classifySuffix(rest, post)
				env.Violate("spliced-output", "state:"+what,
					"after a failure inside the try body (call %d = fail(%d), %s line %d, under %v) what is rendered after the try statement differs from the fault-free run.\nfault-free tail: %s\nfaulted tail:    %s",
					k, id, ps.File, ps.Line, ps.Encl, sim.Q(post), sim.Q(tailOf(rest, len(post)+40)))
				continue
			}
			mid := out[len(pre) : len(out)-len(post)]
			judged++
			// absorbed by a try that is dynamically inside the statement (statically nested, or in a
			// block the body yields to): the call's writer was not the statement's own buffer
			dynAbsorbed := ins[j].body == 0 || k >= len(writersO) || writersO[k] != writersO[ins[j].body]
			if absorbed(id) || dynAbsorbed {
				// (d) absorbed by an inner try: the outer body finished; compare with the twin under the same fault
				TF, tn := run(&jetSet{twinSet}, fc)
				tfi, ok := instances(TF.Probes, tn)
				if ok && !TF.Failed() && len(tfi) == len(ins) && !tfi[j].nested && len(tins) == len(ins) {
					want := Norm(TF.Out[tfi[j].b:tfi[j].e])
					if mid != want {
						env.Violate("success-identical-to-untried", "segment-differs", "fault absorbed by an inner try (call %d): the outer try renders %s but its body renders %s outside try", k, sim.Q(mid), sim.Q(want))
					}
				}
				env.Stat("probe:fault_absorbed_by_inner_try", 1)
				continue
			}
			// (b)/(c): nothing of the body, the catch exactly once
			wantPrefix := ""
			catchText := opts.CatchForm >= 1 && opts.CatchForm <= 3 // forms 0 (no catch) and 4 (empty catch body) render nothing
			if catchText {
				wantPrefix = "[CATCH]"
			}
			okMid := strings.HasPrefix(mid, wantPrefix)
			tail := strings.TrimPrefix(mid, wantPrefix)
			// the catch body also prints '.': it runs at the place of the try statement, so it must see
			// the context the statement had (what the state probe right after the statement prints)
			if catchText {
				ctxAfter := strings.TrimPrefix(segment(post, "ctx"), "<ctx:")
				ctxAfter = strings.TrimSuffix(ctxAfter, ">")
				if i := strings.Index(tail, "<cc:"); i >= 0 && strings.HasSuffix(tail, ">") {
					cc := tail[i+len("<cc:") : len(tail)-1]
					tail = tail[:i]
					if cc != ctxAfter {
						env.Violate("spliced-output", "catch-state:context", "failure at call %d = fail(%d) (%s line %d, under %v): inside the catch body '.' is %s, but at the try statement it is %s", k, id, ps.File, ps.Line, ps.Encl, sim.Q(cc), sim.Q(ctxAfter))
					}
				} else {
					okMid = false
				}
			}
			switch opts.CatchForm {
			case 0, 1, 4:
				okMid = okMid && tail == ""
			case 2, 3:
				inj := fmt.Sprintf("INJ-%d-", id)
				if kind == 2 {
					// a runtime error carries its own text
					okMid = okMid && tail != "" && !reMarker.MatchString(tail)
				} else {
					okMid = okMid && strings.Contains(tail, inj) && !reMarker.MatchString(tail) && strings.Count(tail, inj) == 1
				}
			}
			if !okMid {
				key := "body-leaked"
				if strings.Count(mid, "[CATCH]") != boolInt(catchText) {
					key = "catch-count"
				} else if catchText && opts.CatchForm >= 2 && kind != 2 && !strings.Contains(mid, fmt.Sprintf("INJ-%d-", id)) {
					key = "catch-var"
				}
				env.Violate("spliced-output", key, "failure at call %d = fail(%d) (%s line %d, under %v): the try statement rendered %s; expected only the catch body (form %d) with the injected error", k, id, ps.File, ps.Line, ps.Encl, sim.Q(mid), opts.CatchForm)
			}
		}
		sigParts = append(sigParts, m)
	}
	poolStats(env, pools)
	env.Stat("counters:fault_points_judged", int64(judged))
	env.Stat("counters:fault_points_tried", int64(faultsTried))
	env.Stat("counters:instances_skipped_dynamically_nested", int64(skippedNested))
	env.Res.Nontrivial = judged > 0
	env.Res.Sig = fmt.Sprintf("%016x", sim.HashString(world.String()+data.String()))
	env.Res.Sample = fmt.Sprintf("%sdata=%s catch-form=%d\nfault points inside the try body tried=%d judged=%d", world.String(), data, opts.CatchForm, faultsTried, judged)
}

func boolInt(b bool) int {
	if b {
		return 1
	}
	return 0
}

func tailOf(s string, n int) string {
	if len(s) <= n {
		return s
	}
	return "…" + s[len(s)-n:]
}

// classifySuffix finds the state probe in which the faulted tail first departs
// from the fault-free tail (both start right after the try statement ... the
// faulted one additionally starts with the catch rendering).
func classifySuffix(rest, post string) string {
	// the state probes directly follow the statement: <ctx:…><set:…><content:…><vars:…>
	labels := []string{"ctx", "set", "content", "vars"}
	for _, l := range labels {
		want := segment(post, l)
		got := segment(rest, l)
		if want != got {
			switch l {
			case "ctx":
				return "context"
			case "set":
				return "scope"
			case "content":
				return "content"
			}
			return l
		}
	}
	return "later-output"
}

// segment returns the first "<label:…>" segment (nesting-unaware: up to the
// next "><" boundary or the matching label end).
func segment(s, label string) string {
	i := strings.Index(s, "<"+label+":")
	if i < 0 {
		return "<absent>"
	}
	rest := s[i:]
	// ends at the start of the next known label or end
	end := len(rest)
	for _, nl := range []string{"<set:", "<content:", "<vars:"} {
		if j := strings.Index(rest[1:], nl); j >= 0 && j+1 < end {
			end = j + 1
		}
	}
	if label == "vars" {
		if j := strings.Index(rest, ">"); j >= 0 {
			end = j + 1
		}
	}
	return rest[:end]
}
