package execsim

import (
	"fmt"
	"regexp"
	"sort"
	"strconv"
	"strings"

	"verif/gen"
	"verif/sim"
	"verif/simrt"
)

// C12 — evaluation failures are returned as errors naming the failing file and
// line; everything before has been written, nothing after (DESIGN.md §6 C12).
//
// A failure site is a fault. One run = one generated world with site
// placeholders ({{mark(K)}}, outside try) in every file; for every reached
// site x every failure class the placeholder is replaced by a failing action
// of that class (same line), and for the "function reports an error" class
// every dynamic call of the site is made to panic with an error.

type failClass struct {
	Name     string
	Text     string // single-line action(s)
	Position bool   // jet detects it itself: message must name file and line
	Exact    bool   // output must be exactly what preceded (false: only prefix + nothing later)
}

// the line number in a rendered error position: ("/t0.jet":4) - quotes escaped or not
var reLineInText = regexp.MustCompile(`:\d+\)`)

var failClasses = []failClass{
	{"unknown-identifier", `{{ zzNope }}`, true, true},
	{"unknown-field", `{{ item.ZzNope }}`, true, true},
	{"unknown-field-of-context-var", `{{ root.ZzNope.X }}`, true, true},
	{"unknown-method", `{{ item.ZzNope() }}`, true, true},
	{"unexported-field", `{{ item.secret }}`, true, true},
	{"unexported-field:via-index", `{{ root.Items[0].secret }}`, true, true},
	{"unexported-field:isset-then-use", `{{ if isset(item.secret) }}{{ end }}{{ item.secret }}`, true, true},
	{"unexported-field:promoted", `{{ item.hiddenNote }}`, true, true},
	{"unexported-field:promoted-second-access", `{{ try }}{{ item.hiddenNote }}{{ end }}{{ item.hiddenNote }}`, true, true},
	{"unknown-block", `{{ yield zzNope() }}`, true, true},
	{"unknown-template:include", `{{ include "/zz/nope.jet" }}`, true, true},
	{"unknown-template:exec", `{{ exec("/zz/nope.jet") }}`, true, true},
	// one include statement evaluated twice: a template that exists, then a name that leads nowhere
	{"unknown-template:include-computed:after-a-known-one", `{{ range _, nm := slice("/zinc.jet", "/zz/nope.jet") }}{{ include nm }}{{ end }}`, true, false},
	{"unknown-template:exec-computed:after-a-known-one", `{{ range _, nm := slice("/zinc.jet", "/zz/nope.jet") }}{{ exec(nm) }}{{ end }}`, true, false},
	{"index-kind", `{{ names["x"] }}`, true, true},
	{"index-range", `{{ names[99] }}`, true, true},
	{"index-negative", `{{ names[0 - 1] }}`, true, true},
	{"index-nil", `{{ names[nil] }}`, true, true},
	{"index-map-key-kind", `{{ root.One[item] }}`, true, true},
	{"index-struct-kind", `{{ item[1] }}`, true, true},
	{"index-on-int", `{{ n[0] }}`, true, true},
	{"slice-bound-range", `{{ names[0:99] }}`, true, true},
	{"slice-bound-order", `{{ names[1:0] }}`, true, true},
	{"slice-bound-kind:literal", `{{ names["a":1] }}`, true, true},
	{"slice-bound-kind:variable", `{{ names[s:1] }}`, true, true},
	{"slice-base-kind", `{{ n[0:1] }}`, true, true},
	{"operand-kind:mul:variable", `{{ item * 2 }}`, true, true},
	{"operand-kind:mul:literal", `{{ "a" * 2 }}`, true, true},
	{"operand-kind:add:variable", `{{ item + 1 }}`, true, true},
	{"operand-kind:add:nil", `{{ nil + 1 }}`, true, true},
	{"operand-kind:minus-string:variable", `{{ s - 1 }}`, true, true},
	{"operand-kind:minus-string:literal", `{{ "x" - 1 }}`, true, true},
	{"operand-kind:unary-minus", `{{ -s }}`, true, true},
	{"operand-kind:compare:left", `{{ item < 1 }}`, true, true},
	{"operand-kind:compare:right", `{{ 1 < "x" }}`, true, true},
	{"operand-kind:mul:right", `{{ n * "x" }}`, true, true},
	{"call-target-kind", `{{ s(1) }}`, true, true},
	{"pipe-target-kind", `{{ s | n }}`, true, true},
	// a call with empty parentheses of something that is no function; of a function value that is nil
	{"call-target-kind:no-arguments", `{{ s() }}`, true, true},
	{"call-target-kind:field:no-arguments", `{{ item.Name() }}`, true, true},
	{"call-target-kind:nil-func", `{{ nilfn() }}`, true, true},
	// a jet.Func that was never configured (a typed nil): all three call forms
	{"call-target-kind:nil-jet-func", `{{ niljf(1) }}`, true, true},
	{"call-target-kind:nil-jet-func:command", `{{ niljf: 1 }}`, true, true},
	{"call-target-kind:nil-jet-func:piped", `{{ 1 | niljf }}`, true, true},
	// a template run by exec() fails below isset(), which swallows the failure: what is rendered
	// between that and the failing action still belongs to the streamed prefix (mustFollow)
	{"unknown-identifier:after-exec-failed-below-isset", `{{ if isset(exec("/zrtfail.jet").X) }}y{{ else }}n{{ end }}vis{{ zzNope }}`, true, false},
	// a try whose body wrote something and failed, a try that succeeds, then the failing action
	{"unknown-identifier:after-failed-try-then-successful-try", `{{ try }}hid{{ zzNope }}{{ end }}{{ try }}ok{{ end }}{{ zzNope }}`, true, false},
	{"unknown-identifier:after-failed-try-with-catch-then-successful-try", `{{ try }}hid{{ zzNope }}{{ catch }}c{{ end }}{{ try }}ok{{ end }}{{ zzNope }}`, true, false},
	{"unknown-identifier:after-exec-with-context-failed-below-isset", `{{ if isset(exec("/zrtfail.jet", 1).X) }}y{{ else }}n{{ end }}vis{{ zzNope }}`, true, false},
	// an operand outside the operator's range: integer division and remainder by zero
	{"operand-range:mod-by-zero:literal", `{{ 7 % 0 }}`, true, true},
	{"operand-range:div-by-zero:int", `{{ n / zint }}`, true, true},
	{"operand-range:mod-by-zero:int", `{{ n % zint }}`, true, true},
	// divisors that are not zero themselves and become zero where the division is made
	{"operand-range:mod-by-zero:fraction", `{{ n % qf }}`, true, true},
	{"operand-range:mod-by-zero:string-zero", `{{ n % "0" }}`, true, true},
	{"operand-range:div-by-zero:string-zero", `{{ n / "0" }}`, true, true},
	{"operand-range:mod-by-zero:float-left-fraction", `{{ 1.5 % qf }}`, true, true},
	// the failing action spans several lines: its line is where it begins
	{"unknown-block:yield-with-content", "{{ yield zzNope() content }}\nyc\n{{ end }}", true, true},
	{"yield-argument-without-value:with-content", "{{ yield zb(q) content }}\nyc\n{{ end }}", true, true},
	{"index-map-key-nil", `{{ root.One[nil] }}`, true, true},
	// a map with an interface key type indexed with something that cannot be hashed
	{"index-map-key-unhashable", `{{ ifmap[names] }}`, true, true},
	{"index-map-key-unhashable:inside-a-comparable-type", `{{ ifmap[uhkey] }}`, true, true},
	// a range subject that cannot be received from; a safe writer that is nil; a value-receiver method
	// called through a nil pointer
	{"range-subject-kind:send-only-channel", `{{ range mksend() }}{{ end }}`, true, true},
	{"call-target-kind:nil-safe-writer", `{{ nilw: "x" }}`, true, true},
	{"call-target-kind:nil-safe-writer:piped", `{{ "x" | nilw }}`, true, true},
	{"nil-dereference-method:value-receiver", `{{ root.NilP.Title() }}`, true, true},
	// a slice piped into a variadic function; a field promoted through an embedded pointer that is nil
	{"arg-kind:slice-piped-into-variadic", `{{ names | vsfn }}`, true, true},
	{"nil-dereference-field:promoted-through-nil-embedded-pointer", `{{ nilemb.MetaName }}`, true, true},
	// a call of a missing map entry inside a larger expression; operands and arguments that reflection rejects
	{"call-target-kind:missing-map-entry-in-expression", `{{ 1 + item.M.zz() }}`, true, true},
	{"operand-kind:equal:bytes-and-string", `{{ bytesv == "ab" }}`, true, true},
	{"builtin-arg-kind:slice-of-nil", `{{ slice(nil) }}`, true, true},
	{"arg-count:slice-shorter-than-array-parameter", `{{ arrfn(none) }}`, true, true},
	// the neighbours of the four repairs of the last round: the same values at the other argument sites
	{"arg-count:slice-shorter-than-array-parameter:piped", `{{ none | arrfn }}`, true, true},
	{"arg-kind:slice-into-variadic:explicit", `{{ vsfn(names) }}`, true, true},
	{"arg-kind:slice-into-variadic:piped-with-more", `{{ names | vsfn: "a" }}`, true, true},
	{"builtin-arg-kind:slice-of-nil:later-argument", `{{ array(1, nil) }}`, true, true},
	{"nil-dereference-field:promoted-through-nil-embedded-pointer:in-expression", `{{ 1 + len(nilemb.MetaName) }}`, true, true},
	{"command-args-on-non-function", `{{ s: 1 }}`, true, true},
	{"arg-count:few", `{{ upper() }}`, true, true},
	{"arg-count:many", `{{ upper(s, s) }}`, true, true},
	{"arg-count:piped", `{{ s | upper: s }}`, true, true},
	{"arg-kind:convert-string-to-int", `{{ repeat(s, "b") }}`, true, true},
	{"arg-kind:convert-slice-to-string", `{{ upper(names) }}`, true, true},
	{"arg-kind:piped", `{{ names | upper }}`, true, true},
	{"arg-nil", `{{ upper(nil) }}`, true, true},
	{"builtin-arg-kind:len", `{{ len(n) }}`, true, true},
	{"builtin-arg-count:len", `{{ len() }}`, true, true},
	{"builtin-arg-count:isset", `{{ isset() }}`, true, true},
	{"builtin-arg-range:ints", `{{ ints(3, 1) }}`, true, true},
	{"builtin-arg-kind:ints", `{{ ints("a", 1) }}`, true, true},
	{"builtin-arg-count:map", `{{ map("a") }}`, true, true},
	{"builtin-arg-kind:dump", `{{ dump(1, 2) }}`, true, true},
	{"range-subject-kind", `{{ range n }}{{ end }}`, true, true},
	{"range-subject-nil", `{{ range nil }}{{ end }}`, true, true},
	{"range-subject-nil-pointer", `{{ range root.NilP }}{{ end }}`, true, true},
	{"range-subject-kind:two-vars", `{{ range i, v := n }}{{ end }}`, true, true},
	{"yield-argument-without-value", `{{ yield zb(q) }}`, true, true},
	{"yield-more-arguments-than-declared", `{{ yield zb(q, r) }}`, true, true},
	{"underscore-without-piped-value", `{{ upper(_) }}`, true, true},
	{"underscore-without-piped-value:builtin", `{{ len(_) }}`, true, true},
	{"underscore-without-piped-value:variadic", `{{ vfn(_) }}`, true, true},
	{"arg-kind:variadic", `{{ vfn(names) }}`, true, true},
	{"safewriter-not-last", `{{ s | raw | upper }}`, true, false},
	{"nil-dereference-field", `{{ item.Sub.Sub.Name }}`, true, true},
	{"assign-undeclared", `{{ zzNope = 1 }}`, true, true},
	{"include-name-kind", `{{ include n }}`, true, true},
	{"include-name-nil", `{{ include nil }}`, true, true},
	{"if-condition-fails", `{{ if zzNope }}{{ end }}`, true, true},
	{"ternary-condition-fails", `{{ zzNope ? 1 : 2 }}`, true, true},
	{"let-value-fails", `{{ zzv := zzNope }}`, true, true},
	{"yield-parameter-fails", `{{ yield zb(p=zzNope) }}`, true, true},
	{"yield-context-fails", `{{ yield zb() zzNope }}`, true, true},
	{"include-context-fails", `{{ include "/zinc.jet" zzNope }}`, true, true},
	// a template that exists but does not parse: the failure is reported (by whom and with which
	// position is not pinned down by the statement: Position false)
	{"broken-template:include", `{{ include "/zbroken.jet" }}`, false, true},
	{"broken-template:includeIfExists", `{{ includeIfExists("/zbroken.jet") }}`, false, true},
	{"broken-template:includeIfExists:in-condition", `{{ if includeIfExists("/zbroken.jet") }}{{ end }}`, false, true},
	{"broken-template:exec", `{{ exec("/zbroken.jet") }}`, false, true},
	{"broken-reference:include", `{{ include "/zbadref.jet" }}`, false, true},
	{"broken-reference:includeIfExists", `{{ includeIfExists("/zbadref.jet") }}`, false, true},
	// the same broken template requested twice from one Set (the first failure is caught)
	{"broken-template:include-again-after-try", `{{ try }}{{ include "/zbroken.jet" }}{{ end }}{{ include "/zbroken.jet" }}`, false, true},
	{"broken-template:exec-again-after-try", `{{ try }}{{ exec("/zbroken.jet") }}{{ end }}{{ exec("/zbroken.jet") }}`, false, true},
	// the '=' form of range over an index-less ranger with two variables
	{"range-two-vars-indexless:let", `{{ range zza, zzb := plain }}{{ end }}`, true, true},
	{"range-two-vars-indexless:empty-with-else", `{{ range zza, zzb := plain0 }}{{ else }}{{ end }}`, true, true},
	{"invalid-value-piped-into-placeholder:go-func", `{{ item.M.absent | gofn(_, 1) }}`, true, true},
	{"arg-kind:interface-with-methods", `{{ strfn(n) }}`, true, true},
	{"arg-kind:interface-with-methods:piped", `{{ s | strfn }}`, true, true},
	{"arg-count:piped-into-func-without-parameters", `{{ s | nofn }}`, true, true},
	{"arg-count:func-without-parameters", `{{ nofn(1, 2) }}`, true, true},
	{"range-subject-kind:zero-string", `{{ range zstr }}{{ else }}{{ end }}`, true, true},
	{"range-subject-kind:zero-int", `{{ range zint }}{{ else }}{{ end }}`, true, true},
	{"range-subject-kind:zero-struct", `{{ range zst }}{{ else }}{{ end }}`, true, true},
	{"invalid-value-piped-into-placeholder:go-func-variadic", `{{ item.M.absent | vfn(1, _) }}`, true, true},
	{"range-two-vars-indexless:assign", `{{ zza, zzb := 1, 2 }}{{ range zza, zzb = plain }}{{ end }}`, true, true},
	{"underscore-without-piped-value:after-failed-pipe", `{{ try }}{{ s | repeat(zzNope) }}{{ end }}{{ upper(_) }}`, true, true},
	{"underscore-without-piped-value:after-failed-pipe-builtin", `{{ try }}{{ s | len(1) }}{{ end }}{{ upper(_) }}`, true, true},
	{"nil-map-index-then-field", `{{ root.NilP.Name }}`, true, true},
	{"method-arg-count", `{{ item.Title(1) }}`, true, true},
	{"field-of-string", `{{ s.Nope }}`, true, true},
}

type filePos struct {
	File string
	Line int
}

// positions finds every `<path><up to 8 non-digit bytes><number>` in msg, in
// order of appearance. The oracle is format-agnostic: a message identifies the
// failing action if ANY of the positions it names is the right one (a message
// may legitimately name a chain: includer, then included file).
func positions(msg string, files []string) (out []filePos) {
	type hit struct {
		at int
		fp filePos
	}
	var hits []hit
	for _, f := range files {
		from := 0
		for {
			i := strings.Index(msg[from:], f)
			if i < 0 {
				break
			}
			i += from
			rest := msg[i+len(f):]
			j := 0
			for j < len(rest) && j < 8 && (rest[j] < '0' || rest[j] > '9') {
				j++
			}
			k := j
			for k < len(rest) && rest[k] >= '0' && rest[k] <= '9' {
				k++
			}
			if k > j {
				n, _ := strconv.Atoi(rest[j:k])
				hits = append(hits, hit{i, filePos{f, n}})
			}
			from = i + len(f)
		}
	}
	sort.Slice(hits, func(a, b int) bool { return hits[a].at < hits[b].at })
	for _, h := range hits {
		out = append(out, h.fp)
	}
	return
}

// position is the first position named (triage aid).
func position(msg string, files []string) (string, int, bool) {
	ps := positions(msg, files)
	if len(ps) == 0 {
		return "", 0, false
	}
	return ps[0].File, ps[0].Line, true
}

// mustFollow: classes whose action renders text of its own before it fails: that text must follow
// what preceded the site, byte for byte
var mustFollow = map[string]string{
	"unknown-identifier:after-failed-try-then-successful-try":            "ok",
	"unknown-identifier:after-failed-try-with-catch-then-successful-try": "cok",
	"unknown-identifier:after-exec-failed-below-isset":                   "nvis",
	"unknown-identifier:after-exec-with-context-failed-below-isset":      "nvis",
}

var reToken = regexp.MustCompile(`@@\d+\.\d+@@`)

// untoken removes the visible site tokens the twin program renders.
func untoken(s string) string { return reToken.ReplaceAllString(s, "") }

// tokenPrefix: everything rendered before the n-th dynamic call of site id, tokens removed;
// ok=false when that token is not in the output (site inside try/exec, or not reached).
func tokenPrefix(out string, id, n int) (string, bool) {
	tok := fmt.Sprintf("@@%d.%d@@", id, n)
	i := strings.Index(out, tok)
	if i < 0 {
		return "", false
	}
	return untoken(out[:i]), true
}

func RunC12(env *sim.Env) {
	defer DropIfTooExpensive(env)
	t := env.Tape
	if t.Choose(40) == 39 {
		// a long-lived process: 66 000 templates have been parsed before this one (an index that wraps, a
		// table that is never pruned)
		fl, _ := NewSet(map[string]string{})
		for i := 0; i < 66000; i++ {
			fl.Parse(fmt.Sprintf("/flood/p%d.jet", i), "x")
		}
		env.Stat("probe:sixty_six_thousand_templates_parsed_before", 1)
	}
	opts := gen.SwarmOptions(t)
	opts.Sites, opts.Probes, opts.ProbeExpr, opts.Dump = true, true, false, false
	world := gen.GenWorld(t, opts)
	world.Files["/zinc.jet"] = "zinc"
	world.Files["/zrtfail.jet"] = "rt{{ zzNopeInExec }}"
	world.Files["/zbroken.jet"] = "broken {{ if }} template"
	world.Files["/zbadref.jet"] = `{{ extends "/zz/nowhere.jet" }}x`
	data := gen.GenData(t, 1)
	pools, un := installPools(env, simrt.PoolLIFO)
	defer un()
	files := sim.SortedKeys(world.Files)
	siteByID := map[int]gen.ProbeSite{}
	for _, ps := range world.Probes {
		siteByID[ps.ID] = ps
	}
	run := func(fs map[string]string, c Call) (Outcome, map[int]bool) {
		set, _ := NewSet(fs)
		nested := map[int]bool{}
		o := execWithWriterWatch(&jetSet{set}, c, nested)
		pools.AbandonOutstanding()
		pools.MarkLastReleased(o.Failed())
		return o, nested
	}
	maxSites, maxClasses := 6, 24
	if env.Tier == "thorough" {
		maxSites, maxClasses = 12, len(failClasses)
	}
	judged := 0
	var sampleCases []string
	for _, m := range world.Mains {
		call := Call{Tmpl: m, Data: data, Tokens: true}
		stepsBefore := Steps()
		T, nested := run(world.Files, call)
		costT := Steps() - stepsBefore
		if T.Failed() {
			env.Stat("counters:mains_whose_fault_free_run_fails", 1)
			continue
		}
		if T.Probes.Calls > 600 || len(T.Out) > 1<<16 || costT > MaxStepsPerExecution {
			env.Stat("counters:mains_skipped_too_large", 1)
			continue
		}
		tout := Norm(T.Out)
		// "was this call made inside a try body or inside exec()?" - read off the marks every try
		// statement and every exec'd template of the world carries, not off the Runtime under test
		// (whose current writer a changed implementation may redirect differently)
		inTry := map[int]bool{}
		{
			// per try statement a stack of activations (the same statement can be active several times:
			// a block that yields its caller's content, which yields the block again); true = body running
			act := map[int][]bool{}
			running := 0
			execOpen := 0
			for i, id := range T.Probes.IDs {
				switch {
				case id == gen.MarkExecOpen:
					execOpen++
				case id == gen.MarkExecOpen+1:
					if execOpen > 0 {
						execOpen--
					}
				case id >= gen.MarkTryOpen && id < gen.MarkRoot:
					k, what := (id-gen.MarkTryOpen)/3, (id-gen.MarkTryOpen)%3
					st := act[k]
					switch what {
					case 0:
						act[k] = append(st, true)
						running++
					case 1: // the body failed, its catch body begins
						if n := len(st); n > 0 && st[n-1] {
							st[n-1] = false
							running--
						}
					case 2: // the statement is over
						if n := len(st); n > 0 {
							if st[n-1] {
								running--
							}
							act[k] = st[:n-1]
						}
					}
				}
				if running > 0 || execOpen > 0 {
					inTry[i+1] = true
				}
			}
		}
		// first dynamic call per site, in order of first reach
		type reach struct {
			id    int
			calls []int // dynamic call indices (1-based)
		}
		var reached []*reach
		idx := map[int]*reach{}
		for i, id := range T.Probes.IDs {
			if id == gen.MarkRoot {
				continue
			}
			r := idx[id]
			if r == nil {
				r = &reach{id: id}
				idx[id] = r
				reached = append(reached, r)
			}
			r.calls = append(r.calls, i+1)
		}
		// choose sites (tape) when there are more than the cap
		sel := reached
		if len(sel) > maxSites {
			start := t.Choose(len(sel))
			var s2 []*reach
			for i := 0; i < maxSites; i++ {
				s2 = append(s2, sel[(start+i*len(sel)/maxSites)%len(sel)])
			}
			sel = s2
		}
		for _, r := range sel {
			ps, ok := siteByID[r.id]
			if !ok {
				continue
			}
			first := r.calls[0]
			if inTry[first] {
				env.Stat("counters:sites_skipped_first_reached_inside_try_or_exec", 1)
				continue
			}
			if nested[first] {
				// the Runtime's writer is not the root writer although no try body and no exec() is open
				// according to the marks: not judged by this oracle either way, but counted
				env.Stat("probe:writer_redirected_outside_any_try_body_or_exec", 1)
			}
			// "everything rendered before the site" is read off the twin's final output (the site
			// renders a visible token there), not off the writer's state at call time: the oracle must
			// not depend on when an implementation flushes
			want, okTok := tokenPrefix(tout, r.id, 1)
			if !okTok {
				env.Stat("counters:sites_skipped_token_not_in_output", 1)
				continue
			}
			for _, e := range ps.Encl {
				env.Stat("probe:failure_site_below_"+e, 1)
			}
			env.Stat("probe:failure_site_in_file_role_"+fileRole(ps.File, m), 1)
			// classes: a tape-chosen rotation when capped
			cs := failClasses
			if len(cs) > maxClasses {
				start := t.Choose(len(cs))
				var c2 []failClass
				for i := 0; i < maxClasses; i++ {
					c2 = append(c2, cs[(start+i)%len(cs)])
				}
				cs = c2
			}
			for _, fc := range cs {
				variant := map[string]string{}
				for p, src := range world.Files {
					variant[p] = src
				}
				variant[ps.File] = strings.Replace(world.Files[ps.File], gen.SitePlaceholder(r.id), fc.Text, 1)
				F, _ := run(variant, call)
				judged++
				env.Stat("fault:failing_action_planted", 1)
				env.Event("site %d class %s -> %016x", r.id, fc.Name, sim.HashString(F.Key()))
				where := fmt.Sprintf("class %s: action %s planted at %s line %d (under %v), executing %s", fc.Name, fc.Text, ps.File, ps.Line, ps.Encl, m)
				if F.GetErr != "" {
					env.Violate("returns-error", fc.Name+":rejected-at-parse", "%s: GetTemplate failed: %s", where, F.GetErr)
					continue
				}
				if F.Panic != nil {
					env.Violate("returns-error", fc.Name+":panic", "%s: Execute panicked instead of returning an error: %v", where, sim.Clip(F.Panic.String(), 300))
					continue
				}
				if F.Err == "" {
					env.Violate("returns-error", fc.Name+":nil-error", "%s: Execute returned nil; output %s", where, sim.Q(F.Out))
					continue
				}
				if len(sampleCases) < 3 {
					sampleCases = append(sampleCases, fmt.Sprintf("%s -> err=%s", where, sim.Q(F.Err)))
				}
				if fc.Position {
					named := positions(F.Err, files)
					right, rightFile := false, false
					for _, fp := range named {
						if fp.File == ps.File {
							rightFile = true
							if fp.Line == ps.Line {
								right = true
							}
						}
					}
					switch {
					case right:
					case len(named) == 0:
						env.Violate("position", fc.Name+":no-position", "%s: the error does not name a file and line: %s", where, sim.Q(F.Err))
					case !rightFile:
						env.Violate("position", fc.Name+":wrong-file", "%s: the error names %v: %s", where, named, sim.Q(F.Err))
					default:
						env.Violate("position", fc.Name+":wrong-line", "%s: the error names %v: %s", where, named, sim.Q(F.Err))
					}
				}
				got := untoken(Norm(F.Out))
				want := want
				if strings.Contains(fc.Text, "\n") {
					// an action of several lines moves what follows it in the file: line numbers inside
					// caught error texts that are part of the rendering change legitimately
					got, want = reLineInText.ReplaceAllString(got, ":L)"), reLineInText.ReplaceAllString(want, ":L)")
				}
				if mf, ok := mustFollow[fc.Name]; ok && strings.HasPrefix(got, want) && got != want+mf {
					env.Violate("streamed-prefix", fc.Name+":own-text", "%s: the action renders %q before it fails, the writer holds %s after what preceded it", where, mf, sim.Q(got[len(want):]))
				} else if ok {
					env.Stat("probe:failing_action_own_text_streamed", 1)
				}
				if !strings.HasPrefix(got, want) {
					env.Violate("streamed-prefix", fc.Name+":prefix", "%s: what preceded the failing action is not (all) in the writer.\nexpected prefix: %s\ngot:             %s", where, sim.Q(want), sim.Q(got))
				} else if fc.Exact && got != want {
					env.Violate("streamed-prefix", fc.Name+":late-bytes", "%s: bytes were written after the failing action: %s", where, sim.Q(got[len(want):]))
				} else if !fc.Exact && strings.ContainsAny(got[len(want):], "[]<>") {
					env.Violate("streamed-prefix", fc.Name+":late-bytes", "%s: markers of later content were written after the failing action: %s", where, sim.Q(got[len(want):]))
				}
			}
			// "a called function reports an error": every dynamic call of the site (capped)
			for di, k := range r.calls {
				if di >= 3 {
					break
				}
				if inTry[k] {
					continue
				}
				variant := map[string]string{}
				for p, src := range world.Files {
					variant[p] = src
				}
				variant[ps.File] = strings.Replace(world.Files[ps.File], gen.SitePlaceholder(r.id), fmt.Sprintf("{{fail(%d)}}", r.id), 1)
				fcall := call
				fcall.FaultProbe = k
				if di%2 == 1 {
					fcall.FaultKind = 3 // an error that wraps a Go runtime error is still an error
				}
				F, _ := run(variant, fcall)
				judged++
				env.Stat("fault:function_panics_with_error", 1)
				where := fmt.Sprintf("class function-reports-error: fail(%d) at %s line %d (under %v) panics with an error at its dynamic call #%d (overall call %d), executing %s", r.id, ps.File, ps.Line, ps.Encl, di+1, k, m)
				wantk, okTok := tokenPrefix(tout, r.id, di+1)
				if !okTok {
					continue
				}
				if F.Panic != nil {
					env.Violate("returns-error", "function-error:panic", "%s: Execute panicked: %v", where, sim.Clip(F.Panic.String(), 300))
					continue
				}
				if !F.Probes.Fired {
					env.Violate("determinism", "fault-not-reached", "%s: the call was not reached", where)
					continue
				}
				if F.Err == "" {
					env.Violate("returns-error", "function-error:nil-error", "%s: Execute returned nil", where)
					continue
				}
				if !strings.Contains(F.Err, fmt.Sprintf("INJ-%d-", r.id)) {
					env.Violate("returns-error", "function-error:error-replaced", "%s: the returned error does not carry the function's error: %s", where, sim.Q(F.Err))
				}
				if at := F.Probes.Offs[k-1]; at < 0 || at > len(F.Out) || untoken(Norm(F.Out[:at])) != wantk {
					held := ""
					if at >= 0 && at <= len(F.Out) {
						held = F.Out[:at]
					}
					env.Violate("streamed-prefix", "function-error:not-streamed", "%s: at the fault instant the writer held %s, but %s had been rendered before this call", where, sim.Q(untoken(Norm(held))), sim.Q(wantk))
				}
				if got := untoken(Norm(F.Out)); got != wantk {
					key := "function-error:late-bytes"
					if !strings.HasPrefix(got, wantk) {
						key = "function-error:prefix"
					}
					env.Violate("streamed-prefix", key, "%s: writer holds %s, expected exactly what preceded: %s", where, sim.Q(got), sim.Q(wantk))
				}
			}
		}
		// sites never reached: planting a failing action there must change nothing
		nUnreached := 0
		for _, ps := range world.Probes {
			if idx[ps.ID] != nil || nUnreached >= 2 {
				continue
			}
			nUnreached++
			fc := failClasses[t.Choose(len(failClasses))]
			if strings.Contains(fc.Text, "\n") {
				// an action of several lines moves everything below it: line numbers in texts that are
				// rendered further down (caught error messages) change legitimately
				fc = failClasses[0]
			}
			variant := map[string]string{}
			for p, src := range world.Files {
				variant[p] = src
			}
			variant[ps.File] = strings.Replace(world.Files[ps.File], gen.SitePlaceholder(ps.ID), fc.Text, 1)
			F, _ := run(variant, call)
			env.Stat("counters:unreached_sites_planted", 1)
			if untoken(F.Key()) != untoken(T.Key()) {
				env.Violate("unreached-site-inert", fc.Name+":unreached-site-changed-result", "action %s planted at %s line %d, which %s never reaches, changed the result: %s vs fault-free %s", fc.Text, ps.File, ps.Line, m, F.Describe(), T.Describe())
			}
		}
	}
	poolStats(env, pools)
	env.Stat("counters:planted_failures_judged", int64(judged))
	env.Res.Nontrivial = judged > 0
	env.Res.Sig = fmt.Sprintf("%016x", sim.HashString(world.String()+data.String()))
	env.Res.Sample = fmt.Sprintf("%sdata=%s\nplanted failures judged=%d\n%s", world.String(), data, judged, strings.Join(sampleCases, "\n"))
}

func fileRole(file, main string) string {
	switch {
	case file == main:
		return "executed_template"
	case strings.Contains(file, "inc"):
		return "included"
	case strings.Contains(file, "lib"):
		return "imported"
	case strings.Contains(file, "base"):
		return "extended_parent"
	case strings.Contains(file, "ret"):
		return "exec_target"
	}
	return "other"
}
