package execsim

import (
	"fmt"
	"os"
	"runtime/pprof"
	"strconv"
	"testing"
	"time"

	"verif/gen"
	"verif/sim"
)

// TestDebugRun: DBG_PROP=C13 DBG_SEED=1 DBG_RUN=2983 go test -tags verif -run TestDebugRun ./engines/execsim
func TestDebugRun(t *testing.T) {
	prop := os.Getenv("DBG_PROP")
	if prop == "" {
		t.Skip()
	}
	seed, _ := strconv.ParseInt(os.Getenv("DBG_SEED"), 10, 64)
	run, _ := strconv.ParseInt(os.Getenv("DBG_RUN"), 10, 64)
	tape := sim.NewGenTape(sim.RunSeed(seed, "execsim", prop, run))
	if os.Getenv("DBG_WORLD") != "" {
		opts := gen.SwarmOptions(tape)
		if prop == "C13" {
			opts.TargetTry, opts.Probes, opts.Try, opts.Dump = true, true, true, false
			opts.CatchForm = tape.Choose(3)
			if tape.Choose(4) > 0 {
				opts.CatchForm = 2
			}
		}
		w := gen.GenWorld(tape, opts)
		fmt.Println(w.String())
		return
	}
	go func() {
		time.Sleep(5 * time.Second)
		pprof.Lookup("goroutine").WriteTo(os.Stderr, 2)
		os.Exit(3)
	}()
	env := &sim.Env{T: t, Tape: tape, Prop: prop, Tier: "quick", Res: &sim.Result{}}
	switch prop {
	case "C10":
		RunC10(env)
	case "C13":
		RunC13(env)
	}
	fmt.Printf("%+v\n", env.Res.Violations)
	fmt.Println(env.Res.Sample)
}
