package execsim

import (
	"fmt"
	"reflect"
	"regexp"
	"strings"

	jet "github.com/CloudyKit/jet/v6"

	"verif/gen"
	"verif/sim"
	"verif/simrt"
)

// C10 — Execute is a pure function of its inputs: no residue from earlier
// executions (DESIGN.md §6 C10).
//
// One run = one world + one history. For every dynamic fault point of a
// failing execution and every follow-up template, the pair is executed on one
// Set with the adversarial pool (the follow-up receives the Runtime the failed
// execution released); each call must equal its alone-run (fresh Set, fresh
// pool, same per-call fault plan).

const probePath = "/zprobe.jet"
const leavePath = "/zleave.jet"
const swallowPath = "/zswallow.jet"
const nilDataPath = "/znildata.jet"

var rePtrMethod = regexp.MustCompile(`<ptrmethod:[a-z]*:([^>]*)>`)

var reMaps = regexp.MustCompile(`<maps:([^>]*)>`)
var reUnexp = regexp.MustCompile(`<unexp:([^>]*)>`)

var reInner = regexp.MustCompile(`<inner:([^>]*)>`)

var reTwin = regexp.MustCompile(`<twin:([^=|>]*)=([^=|>]*)\|([^=|>]*)=([^=|>]*)>`)

// stateProbeSource prints everything a fresh runtime must not have.
func stateProbeSource(w *gen.World) string {
	var b strings.Builder
	// the probe imports the first library only: blocks of other libraries (and of the mains) are unknown
	// to it - unless somebody wrote them into that library's block table
	if _, ok := w.Files["/lib/lib0.jet"]; ok {
		b.WriteString(`{{import "/lib/lib0.jet"}}`)
	}
	b.WriteString("<ctx:{{.}}>")
	// Runtime.Let called from a function at the top level of the template, before anything else wrote
	// a variable: the caller's VarMap is not the place for it
	b.WriteString(`<let:{{isset(zqlet)}}{{lettop()}}{{isset(zqlet)}}>`)
	b.WriteString("<content:{{yield content}}>")
	b.WriteString("<set:")
	for _, v := range w.VarNames {
		fmt.Fprintf(&b, "{{isset(%s)}},", v)
	}
	b.WriteString("{{isset(e)}},{{isset(p0)}},{{isset(p1)}}>")
	b.WriteString("<vars:{{s}}{{n}}{{item.Name}}>")
	// a range over a three-entry map that is left after its first element (the helper returns from inside
	// the loop), then a range over an empty map: with a recycled ranger the second must still be empty
	b.WriteString(`<maps:{{exec("` + leavePath + `")}}{{range root.NoMap}}LEFTOVER{{else}}empty{{end}}|{{range names}}{{.}}{{end}}>`)
	// two types of one shape: a field name resolves alike on both, whenever it is evaluated
	b.WriteString("<twin:{{root.Col.Name}}={{root.Col2.Name}}|{{root.Col.Only}}={{root.Col2.Only}}>")
	// the embedded struct reached by its own name, after its embedder was resolved: what the data holds
	b.WriteString("<inner:{{try}}{{root.Col.Inner.Name}}|{{root.Col.Inner.Only}}{{catch}}FAILED{{end}}>")
	// a pointer-receiver method: asked for on a value that is not addressable first (isset says what it
	// says), then called through a pointer - which must work whatever the first lookup found
	b.WriteString("<ptrmethod:{{isset(item.PtrName)}}:{{try}}{{item.Sub.PtrName()}}{{catch}}FAILED{{end}}>")
	// an unexported field, asked for twice: it is an error both times, whatever the first lookup left behind
	b.WriteString("<unexp:{{try}}{{item.secret}}{{catch}}FAILED{{end}}|{{try}}{{item.secret}}{{catch}}FAILED{{end}}|{{try}}{{item.Sub.secret}}{{catch}}FAILED{{end}}>")
	// an assignment to a variable the CALLER passed in: the next execution with the same VarMap starts
	// from what the caller put there, and the caller's map is not written to
	b.WriteString(`<assign:{{s}}{{s = "reassigned"}}{{s}}>`)
	b.WriteString("<blocks:")
	seen := map[string]bool{}
	for _, bi := range w.Blocks {
		if seen[bi.Name] {
			continue
		}
		seen[bi.Name] = true
		fmt.Fprintf(&b, "{{try}}{{yield %s() item}}{{catch}}-{{end}}", bi.Name)
	}
	b.WriteString(">")
	b.WriteString("<dump:{{dump(9)}}>")
	b.WriteString("<tail>")
	return b.String()
}

type c10 struct {
	env    *sim.Env
	world  *gen.World
	pools  *simrt.Pools
	alone  map[string]Outcome
	nAlone int
}

func (c *c10) aloneRun(call Call) Outcome {
	k := fmt.Sprintf("%s|%d|%d|%d|%d|%d|%v|%v", call.Tmpl, call.FaultProbe, call.FaultProbe2, call.FaultWrite, call.FaultKind, call.SetCfg, call.NilVars, call.Data)
	if o, ok := c.alone[k]; ok {
		return o
	}
	saved := c.pools.Policy
	c.pools.Policy = simrt.PoolFresh
	set := NewSetCfg(c.world.Files, call.SetCfg)
	o := Exec(set, call, "x")
	c.pools.AbandonOutstanding()
	c.pools.Policy = saved
	c.alone[k] = o
	c.nAlone++
	return o
}

func RunC10(env *sim.Env) {
	defer DropIfTooExpensive(env)
	t := env.Tape
	opts := gen.SwarmOptions(t)
	world := gen.GenWorld(t, opts)
	world.Files[leavePath] = `{{range root.Three}}{{return "left"}}{{end}}{{range i, v := names}}{{return v}}{{end}}`
	world.Files[probePath] = stateProbeSource(world)
	// an execution that SUCCEEDS although something failed on the way: isset() swallows the failure of an
	// exec'd template, raised in a block body after it yielded its content (below an include). The
	// constructs the failure unwound have not restored anything; Execute returns nil all the same.
	swVariant := t.Choose(3)
	world.Files["/zsw_card.jet"] = `{{block zcard(title="")}}{{zin := title}}{{yield content}}{{undefinedName}}{{end}}`
	world.Files["/zsw_inner.jet"] = `{{zq := "swallowed"}}{{yield zcard(title="t") content}}LEAKED-CONTENT{{end}}`
	world.Files["/zsw_page.jet"] = `{{import "/zsw_card.jet"}}{{include "/zsw_inner.jet"}}`
	// executed without data after executions with data: '.' is nothing, whoever used the Runtime before
	world.Files[nilDataPath] = `<ctx:{{ isset(.Names) ? "somebody's" : "none" }}{{ isset(.) ? "!" : "" }}>`
	world.Files[swallowPath] = []string{
		`{{isset(exec("/zsw_page.jet").x) ? "set" : "unset"}}`,
		`{{if isset(exec("/zsw_page.jet")[0])}}set{{else}}unset{{end}}<after>`,
		`{{range ints(0, 2)}}{{isset(exec("/zsw_page.jet").x)}}{{end}}`,
	}[swVariant]
	world.Order = append(world.Order, probePath)
	data := gen.GenData(t, 1)
	data2 := gen.GenData(t, 2)

	pools, un := installPools(env, simrt.PoolAdversarial)
	defer un()
	c := &c10{env: env, world: world, pools: pools, alone: map[string]Outcome{}}

	// the Set under test lives through the whole history
	set := NewSetCfg(world.Files, 0)
	// a second Set with another escaper and a global: pooled Runtimes travel between Sets
	set2 := NewSetCfg(world.Files, 1)
	targets := append(append([]string(nil), world.Mains...), probePath)
	tmpls := map[string]*jet.Template{}
	for _, p := range targets {
		var tt *jet.Template
		var err error
		if pc := sim.Guard(func() { tt, err = set.GetTemplate(p) }); pc != nil || err != nil {
			env.Res.Invalid = "world does not parse"
			env.Res.Sample = world.String() + fmt.Sprintf("\nparse: %v %v", err, pc)
			return
		}
		tmpls[p] = tt
	}
	// every file of the world is hashed (included/imported/extended templates are parsed templates too)
	for _, p := range sim.SortedKeys(world.Files) {
		if _, ok := tmpls[p]; ok {
			continue
		}
		var tt *jet.Template
		var err error
		if pc := sim.Guard(func() { tt, err = set.GetTemplate(p) }); pc == nil && err == nil {
			tmpls[p] = tt
		}
	}
	before := map[string]uint64{}
	for p, tt := range tmpls {
		before[p] = HashTemplate(tt)
	}

	var hist []string
	var prevVars jet.VarMap
	var prevSnap map[string]string
	failedReuse := 0
	exec := func(call Call) {
		hs := set
		if call.SetCfg == 1 {
			hs = set2
		}
		o := Exec(hs, call, "x")
		pools.AbandonOutstanding()
		pools.MarkLastReleased(o.Failed())
		want := c.aloneRun(call)
		env.Event("call %s -> %016x", call, sim.HashString(o.Key()))
		hist = append(hist, call.String())
		env.Stat("counters:executions", 1)
		if o.Failed() {
			env.Stat("counters:failed_executions", 1)
		}
		if o.W.Fired {
			env.Stat("fault:writer_error", 1)
		}
		if o.Probes.Fired {
			env.Stat("fault:function_panics_with_error", int64(o.Probes.NFired))
		}
		if o.Panic != nil {
			env.Stat("fault:function_dies_with_non_error_panic", 1)
		}
		if o.Probes.NFired > 1 {
			env.Stat("probe:two_failures_in_one_execution", 1)
		}
		if m := reTwin.FindStringSubmatch(o.Out); m != nil && (m[1] != m[2] || m[3] != m[4]) {
			env.Violate("alone-run-equality", "residue:same-shape-types-resolve-differently", "call %q: two struct types of one shape and one content render %s: what a field name resolves to depends on what the process had rendered before\nhistory: %s", call.String(), sim.Q(m[0]), strings.Join(hist[max(0, len(hist)-4):], " ; "))
		}
		if m := reInner.FindStringSubmatch(o.Out); m != nil && m[1] != "embedded|only" {
			env.Violate("alone-run-equality", "residue:embedded-struct-fields-resolve-wrongly", "call %q renders %s: the fields of the embedded struct hold \"embedded\" and \"only\" - what they resolve to depends on which struct type the process resolved first\nhistory: %s", call.String(), sim.Q(m[0]), strings.Join(hist[max(0, len(hist)-4):], " ; "))
		}
		if m := reMaps.FindStringSubmatch(o.Out); m != nil && strings.Contains(m[1], "LEFTOVER") {
			env.Violate("alone-run-equality", "residue:ranger-leftover", "call %q renders %s: a range over an empty map rendered elements - those an earlier range over another map, left through return, had not consumed\nhistory: %s", call.String(), sim.Q(m[0]), strings.Join(hist[max(0, len(hist)-4):], " ; "))
		}
		if m := reUnexp.FindStringSubmatch(o.Out); m != nil && m[1] != "FAILED|FAILED|FAILED" {
			env.Violate("alone-run-equality", "residue:unexported-field-rendered", "call %q renders %s: an unexported field is an error every time it is asked for; here the answer depends on an earlier lookup of the same name\nhistory: %s", call.String(), sim.Q(m[0]), strings.Join(hist[max(0, len(hist)-4):], " ; "))
		}
		if m := rePtrMethod.FindStringSubmatch(o.Out); m != nil && m[1] != "P:sub" {
			env.Violate("alone-run-equality", "residue:pointer-method-lost", "call %q renders %s: the pointer-receiver method PtrName of the *Item holds \"P:sub\"; what a method name resolves to depends on how the process looked it up first\nhistory: %s", call.String(), sim.Q(m[0]), strings.Join(hist[max(0, len(hist)-4):], " ; "))
		}
		// the VarMap of the call before this one, looked at again: an execution must not reach back into
		// what an earlier caller passed in (a recycled scope that is really somebody's VarMap)
		if prevVars != nil {
			if d := varsDiff(prevSnap, varsSnapshot(prevVars)); d != "" {
				env.Violate("inputs-untouched", "earlier-callers-varmap-changed", "call %q changed the VarMap that the call before it had passed to Execute (%s)\nhistory: %s", call.String(), d, strings.Join(hist[max(0, len(hist)-4):], " ; "))
			}
		}
		prevVars, prevSnap = o.Vars, o.VarsAfter
		if o.VarsChanged != "" {
			env.Violate("inputs-untouched", "caller-varmap-changed", "call %q: Execute changed the VarMap the caller passed in (%s); a caller that keeps its VarMap gets another rendering from the next Execute with the same inputs.\nhistory: %s", call.String(), o.VarsChanged, strings.Join(hist[max(0, len(hist)-4):], " ; "))
		}
		if o.Key() == want.Key() {
			return
		}
		// classify
		what := "output"
		no, nw := Norm(o.Out), Norm(want.Out)
		if no != nw {
			what = labelAt(nw, diffIndex(no, nw))
			if l2 := labelAt(no, diffIndex(no, nw)); what == "output" && l2 != "output" {
				what = l2
			}
		} else if Norm(o.Err) != Norm(want.Err) {
			what = "error-text"
		} else {
			what = "panic"
		}
		prev := "(first call)"
		if len(hist) > 1 {
			prev = hist[len(hist)-2]
		}
		env.Violate("alone-run-equality", "residue:"+what,
			"call %q after %q differs from the same call on a fresh Set and fresh pool.\nalone:   %s\nhistory: %s\n%s",
			call.String(), prev, want.Describe(), o.Describe(), firstDiff(Norm(want.Out)+"|err="+Norm(want.Err), Norm(o.Out)+"|err="+Norm(o.Err)))
	}

	// one history in six renders a value of each of 300 further struct types first (a process that has
	// seen many types: caches with a capacity, tables that had to grow)
	flood := t.Choose(6) == 5
	doFlood := func() {
		if !flood {
			return
		}
		flood = false
		var many []interface{}
		for i := 0; i < 300; i++ {
			typ := reflect.StructOf([]reflect.StructField{
				{Name: "V", Type: reflect.TypeOf("")},
				{Name: fmt.Sprintf("X%d", i), Type: reflect.TypeOf(0)},
			})
			v := reflect.New(typ).Elem()
			v.Field(0).SetString("f")
			many = append(many, v.Interface())
		}
		fl, _ := NewSet(map[string]string{"/zflood.jet": "{{range many}}{{.V}}{{end}}"})
		if tm, err := fl.GetTemplate("/zflood.jet"); err == nil {
			vm := jet.VarMap{}
			vm.Set("many", many)
			var sink strings.Builder
			sim.Guard(func() { tm.Execute(&sink, vm, nil) })
			pools.AbandonOutstanding()
		}
		hist = append(hist, "render-300-struct-types")
		env.Event("flood 300 struct types")
		env.Stat("probe:three_hundred_struct_types_rendered_first", 1)
	}
	// one run in four calls Execute without variables (what the templates need comes from Set globals)
	nilVars := t.Choose(4) == 3
	emptyVars := false
	if nilVars {
		env.Stat("probe:execute_with_nil_variables", 1)
		// half of those pass an empty map, not nil: nothing to copy, and still the caller's
		if emptyVars = t.Choose(2) == 1; emptyVars {
			env.Stat("probe:execute_with_an_empty_non_nil_VarMap", 1)
		}
	}
	// choose the failing templates
	nFail := t.Range(1, 2)
	for fi := 0; fi < nFail; fi++ {
		m := world.Mains[t.Choose(len(world.Mains))]
		d := data
		if t.Choose(2) == 1 {
			d = data2
		}
		stepsBefore := Steps()
		base := c.aloneRun(Call{Tmpl: m, Data: d, NilVars: nilVars, EmptyVars: emptyVars})
		costBase := Steps() - stepsBefore
		nProbe, nWrite := base.Probes.Calls, base.W.Writes
		if nProbe > 2000 || nWrite > 5000 || costBase > MaxStepsPerExecution {
			env.Stat("counters:templates_skipped_too_large", 1)
			continue
		}
		// fault points: every dynamic probe call and every write (capped, evenly thinned)
		type fp struct{ probe, write, probe2, kind int }
		var fps []fp
		nDouble := 0
		for k := 1; k <= nProbe; k++ {
			fps = append(fps, fp{probe: k})
			// the function may also die with something Execute re-raises (a string panic, a Go
			// runtime error): the caller recovers it, and later executions must not notice
			if k%3 == 1 {
				fps = append(fps, fp{probe: k, kind: 1 + (k/3)%2})
			}
			// second-level faults: calls that only happen (or still happen) after the first failure,
			// e.g. inside the catch body it led to - the catch body fails too
			if nDouble < 8 {
				o1 := c.aloneRun(Call{Tmpl: m, Data: d, FaultProbe: k, NilVars: nilVars, EmptyVars: emptyVars})
				if n1 := o1.Probes.Calls; n1 > k {
					fps = append(fps, fp{probe: k, probe2: k + 1})
					nDouble++
					if n1 > k+1 {
						fps = append(fps, fp{probe: k, probe2: n1})
						nDouble++
					}
				}
			}
		}
		for k := 1; k <= nWrite; k++ {
			fps = append(fps, fp{write: k})
		}
		maxFP := 24
		if env.Tier == "thorough" {
			maxFP = 60
		}
		if len(fps) > maxFP {
			step := float64(len(fps)) / float64(maxFP)
			var thin []fp
			for i := 0; i < maxFP; i++ {
				thin = append(thin, fps[int(float64(i)*step)])
			}
			fps = thin
		}
		env.Stat("counters:fault_points", int64(len(fps)))
		// fault-free first (residue after successful executions)
		exec(Call{Tmpl: m, Data: d, NilVars: nilVars, EmptyVars: emptyVars})
		{
			nd := d
			nd.Nil = true
			exec(Call{Tmpl: nilDataPath, Data: nd, NilVars: nilVars, EmptyVars: emptyVars})
			env.Stat("probe:execution_without_data_after_one_with_data", 1)
		}
		doFlood()
		if fi == 0 {
			for _, follow := range targets {
				exec(Call{Tmpl: swallowPath, Data: d, NilVars: nilVars, EmptyVars: emptyVars})
				exec(Call{Tmpl: follow, Data: data2, NilVars: nilVars, EmptyVars: emptyVars})
			}
			env.Stat("probe:successful_execution_that_swallowed_a_failure_below_a_yield", 1)
		}
		for _, f := range fps {
			for _, follow := range targets {
				before := pools.RtReusedAfterFail
				exec(Call{Tmpl: m, Data: d, FaultProbe: f.probe, FaultProbe2: f.probe2, FaultWrite: f.write, FaultKind: f.kind, NilVars: nilVars, EmptyVars: emptyVars})
				fd := d
				if follow != m && t.Choose(2) == 1 {
					fd = data2
				}
				fcfg := 0
				if t.Choose(4) == 3 {
					fcfg = 1
					env.Stat("probe:follow_up_on_another_set", 1)
				}
				exec(Call{Tmpl: follow, Data: fd, SetCfg: fcfg, NilVars: nilVars, EmptyVars: emptyVars})
				if pools.RtReusedAfterFail > before {
					failedReuse++
				}
			}
		}
		// amplification: a residue that only grows (a counter, a depth, a list) shows after the same failure
		// happened many times on the same pooled Runtime - repeat one fault point, then run every follow-up
		if len(fps) > 0 && t.Choose(2) == 1 {
			f := fps[t.Choose(len(fps))]
			reps := t.Range(20, 90)
			if t.Choose(3) == 2 {
				reps = []int{300, 450, 1100}[t.Choose(3)] // counters that saturate near a thousand (one or a few levels per failed execution)
			}
			// the most recently released Runtime every time: what accumulates, accumulates on one object
			savedPolicy := pools.Policy
			pools.Policy = simrt.PoolLIFO
			for i := 0; i < reps; i++ {
				exec(Call{Tmpl: m, Data: d, FaultProbe: f.probe, FaultProbe2: f.probe2, FaultWrite: f.write, FaultKind: f.kind, NilVars: nilVars, EmptyVars: emptyVars})
			}
			env.Stat("probe:same_failure_repeated_20_to_1100_times", 1)
			for _, follow := range targets {
				exec(Call{Tmpl: follow, Data: d, NilVars: nilVars, EmptyVars: emptyVars})
			}
			pools.Policy = savedPolicy
		}
	}

	for _, p := range sim.SortedKeys(tmpls) {
		if h := HashTemplate(tmpls[p]); h != before[p] {
			env.Violate("template-immutable", "template-mutated", "structural hash of parsed template %s changed during the history (%016x -> %016x)", p, before[p], h)
		}
	}
	poolStats(env, pools)
	env.Stat("counters:alone_runs", int64(c.nAlone))
	env.Res.Nontrivial = failedReuse > 0
	env.Res.Sig = fmt.Sprintf("%016x", sim.HashString(world.String()+data.String()+data2.String()+strings.Join(hist, ";")))
	env.Res.Sample = fmt.Sprintf("%sdata=%s\nhistory (%d calls, %d follow-ups on a runtime released by a failed execution): %s …",
		world.String(), data, len(hist), failedReuse, strings.Join(hist[:min(len(hist), 8)], " ; "))
}
