package execsim

import (
	"fmt"
	"reflect"
	"regexp"
	"sort"
	"strings"
	"testing"
	"testing/synctest"
	"time"

	jet "github.com/CloudyKit/jet/v6"

	"verif/sim"
	"verif/simrt"
)

// C05 — if renders exactly one branch; range runs once per element, else iff
// empty (DESIGN.md §6 C05).
//
// Programs are nests of if/else-if/else and range whose rendering is known by
// construction: the generator builds a small AST, renders it to jet source and
// evaluates it with the documented rules (a ~100-line reference for exactly
// these two statements). The simulator owns the ranger pools (adversarial
// reuse vs fresh), channel producers on virtual time (testing/synctest) and
// failures injected mid-body under try, followed by further ranges.

// ---- rangeable subjects

type elem struct{ key, val string }

type subject struct {
	name       string // variable name in the VarMap ("" for inline expressions)
	expr       string // expression text
	kind       string // slice-string, slice-int, slice-iface, array, ints, map1, mapN, chan, ranger-idx, ranger-plain, and empty variants
	elems      []elem
	index      bool // provides index
	consumable bool // second range over the same subject sees what is left (channels, custom rangers)
	unordered  bool
	gaps       []int  // virtual seconds before each send (channels), last = before close
	prelude    string // declared by the program itself, at its very beginning (ints() kept in a variable)
	holes      bool   // ranger-plain: every other element is no value at all (an invalid reflect.Value): it renders as nothing
}

// what a nil interface value renders as (fmt's "<nil>", auto-escaped)
const c5nilText = "&lt;nil&gt;"

type idxRanger struct {
	items []string
	i     int
}

func (r *idxRanger) Range() (reflect.Value, reflect.Value, bool) {
	if r.i >= len(r.items) {
		return reflect.Value{}, reflect.Value{}, true
	}
	r.i++
	return reflect.ValueOf(r.i - 1), reflect.ValueOf(r.items[r.i-1]), false
}
func (r *idxRanger) ProvidesIndex() bool { return true }

type plainRanger struct {
	items []string
	i     int
	holes bool // an empty item is handed out as no value at all
}

func (r *plainRanger) Range() (reflect.Value, reflect.Value, bool) {
	if r.i >= len(r.items) {
		return reflect.Value{}, reflect.Value{}, true
	}
	r.i++
	if r.holes && r.items[r.i-1] == "" {
		return reflect.Value{}, reflect.Value{}, false
	}
	return reflect.Value{}, reflect.ValueOf(r.items[r.i-1]), false
}
func (r *plainRanger) ProvidesIndex() bool { return false }

type stNonZero struct{ A int }

// c5ifaces: fields of non-empty interface types holding falsy and truthy values; a condition judges
// what the interface holds
type c5ifaces struct {
	S fmt.Stringer // an empty string of a named type
	E error        // a typed nil pointer
	Z fmt.Stringer // a zero of a named int type
	T fmt.Stringer // a non-empty string
	N fmt.Stringer // nil
}
type c5zstr string

func (z c5zstr) String() string { return string(z) }

type c5zint int

func (z c5zint) String() string { return "zint" }

type c5err struct{}

func (*c5err) Error() string { return "c5err" }

// feedRanger is a custom Ranger whose own Go kind is chan: the Ranger interface must win over the
// built-in channel ranger (its elements come out transformed).
type feedRanger chan string

func (f feedRanger) Range() (reflect.Value, reflect.Value, bool) {
	v, ok := <-f
	if !ok {
		return reflect.Value{}, reflect.Value{}, true
	}
	return reflect.Value{}, reflect.ValueOf("F:" + v), false
}
func (f feedRanger) ProvidesIndex() bool { return false }

// everyOther is a custom Ranger whose own Go kind is slice; the cursor lives in element 0.
type everyOther []string

func (e everyOther) Range() (reflect.Value, reflect.Value, bool) {
	// e[0] holds the cursor as a decimal string; yields e[1], e[3], e[5], ... with their position
	var cur int
	fmt.Sscan(e[0], &cur)
	i := 1 + 2*cur
	if i >= len(e) {
		return reflect.Value{}, reflect.Value{}, true
	}
	e[0] = fmt.Sprint(cur + 1)
	return reflect.ValueOf(cur), reflect.ValueOf("E:" + e[i]), false
}
func (e everyOther) ProvidesIndex() bool { return true }

// ---- AST

type c5node interface{}
type c5text struct{ s string }
type c5ctx struct{}
type c5var struct{ name string }
type c5if struct {
	conds  []c5cond
	bodies [][]c5node
	els    []c5node
	hasEls bool
}
type c5cond struct {
	text  string
	truth bool
}
type c5range struct {
	s      *subject
	form   int  // 0: range X, 1: range a := X, 2: range a, b := X
	assign bool // '=' instead of ':='
	a, b   string
	body   []c5node
	els    []c5node
	hasEls bool
	wrapN  bool // multi-entry map: chunks wrapped for multiset comparison
	// '_' spellings: "a, _ := X" is still the two-variable form ('.' unchanged); "_ := X" is the
	// one-variable form
	discardA, discardB bool
	discardKey         bool // '=' form with two variables, the key is assigned to '_'
}
type c5let struct{ name, val string }

// c5iface: conditions that reach 'if' wrapped in an interface (elements of a []interface{} as '.'
// and as a loop variable)
type c5iface struct {
	name string
	vals []int // indices into ifaceVals
	form int   // 0: {{range X}}{{if .}}, 2: {{range i, v := X}}{{if v}}
	v    string
}

var ifaceVals = []struct {
	v     interface{}
	truth bool
}{{false, false}, {0, false}, {"", false}, {nil, false}, {true, true}, {"x", true}, {1, true}, {0.0, false}, {0.5, true}, {[]int{}, true}, {uint8(0), false}}

// c5mixed: one inner one-variable range node executed over values that differ in
// ProvidesIndex() (an outer range over a list of rangeables)
type c5mixed struct {
	name  string
	a     string
	elems []*subject
	iface bool // the list is a []interface{} (the Rangers arrive wrapped in interface values), not a []jet.Ranger
}

// c5json: JSON-like data - a []interface{} whose elements are slices and one-entry maps (of strings
// and of interface values), ranged as '.' by ONE inner range statement: the static type of every
// element is interface{}, the way to range it differs from element to element.
type c5json struct {
	name  string
	a, b  string
	kinds []int // 0 []string  1 map[string]string (one entry)  2 []interface{}  3 map[string]interface{} (one entry)  4 empty []string
}

type c5try struct{ body []c5node }
type c5fail struct{ id int }

type c5gen struct {
	t       *sim.Tape
	nMark   int
	nVar    int
	nFail   int
	subs    []*subject
	useChan bool
	useTry  bool
	budget  int
	vis     []string // variable names visible at the point being generated
	nLet    int
	mixed   []*c5mixed
	ifaces  []*c5iface
	jsons   []*c5json
}

var condTable = []c5cond{
	{"true", true}, {"false", false}, {"cT", true}, {"cF", false},
	{"zi", false}, {"pi", true}, {"zf", false}, {"pf", true}, {"0", false}, {"1", true}, {"0.0", false},
	{"zs", false}, {"ns", true}, {"s0", true}, {`""`, false}, {`"a"`, true},
	{"nil", false}, {"np", false}, {"pp", true}, {"nm", false}, {"em", true}, {"fm", true},
	{"nsl", false}, {"esl", true}, {"fsl", true}, {"stv", true}, {"ni", false},
	{"not cT", false}, {"not zi", true}, {"pi > 3", true}, {"pi < 3", false}, {"cT && cF", false}, {"cF || pp", true},
	{"hf", true}, {"nhf", true}, {"0.25", true}, {"tiny", true}, {"u8z", false}, {"u8", true}, {"i64z", false}, {"i64", true},
	{"f32h", true}, {"f32z", false}, {"pi / 10", true}, {"1 - 0.5", true}, {"zi + 0.0", false}, {"not hf", false}, {"hf && cT", true},
	{"pz", true}, {"pzs", true}, {"pfz", true}, {"pst0", true}, {"ppz", true},
	// falsy and truthy values held in fields of non-empty interface types (fmt.Stringer, error)
	{"ifs.S", false}, {"ifs.E", false}, {"ifs.Z", false}, {"ifs.T", true}, {"ifs.N", false}, {"not ifs.S", true}, {"ifs.S || ifs.T", true}, {"ifs.Z && ifs.T", false},
	{"zi == 0", true}, {`ns == "x"`, true}, {`zs != ""`, false}, {"len(fsl) > 0", true}, {"isset(np)", false}, {"isset(pp)", true},
}

func (g *c5gen) mark() string {
	g.nMark++
	return fmt.Sprintf("[m%d]", g.nMark)
}

func (g *c5gen) newSubject() *subject {
	t := g.t
	n := t.Range(0, 4)
	if t.Choose(4) == 0 {
		n = 0
	}
	id := len(g.subs)
	mk := func(kind string) *subject {
		return &subject{name: fmt.Sprintf("x%d", id), expr: fmt.Sprintf("x%d", id), kind: kind, index: true}
	}
	var s *subject
	kinds := []string{"slice-string", "slice-int", "slice-iface", "array", "array-zero", "ints", "ints-var", "map1", "mapN", "ranger-idx", "ranger-plain", "ptr-slice", "ranger-chan-typed", "ranger-slice-typed"}
	if g.useChan {
		kinds = append(kinds, "chan", "chan", "chan", "chan-iface")
	}
	k := kinds[t.Choose(len(kinds))]
	switch k {
	case "slice-string", "slice-iface", "ptr-slice":
		s = mk(k)
		for i := 0; i < n; i++ {
			s.elems = append(s.elems, elem{fmt.Sprint(i), fmt.Sprintf("e%d_%d", id, i)})
		}
	case "slice-int":
		s = mk(k)
		for i := 0; i < n; i++ {
			s.elems = append(s.elems, elem{fmt.Sprint(i), fmt.Sprint(100*id + 10 + i)})
		}
	case "array":
		s = mk(k)
		n = 3
		for i := 0; i < n; i++ {
			s.elems = append(s.elems, elem{fmt.Sprint(i), fmt.Sprintf("a%d_%d", id, i)})
		}
	case "array-zero":
		// an array all of whose elements are zero values: still two elements
		s = mk(k)
		s.elems = []elem{{"0", "0"}, {"1", "0"}}
	case "ints":
		from := t.Range(0, 3)
		cnt := t.Range(1, 4) // ints() rejects empty ranges by documented design
		s = &subject{expr: fmt.Sprintf("ints(%d, %d)", from, from+cnt), kind: k, index: true}
		for i := 0; i < cnt; i++ {
			s.elems = append(s.elems, elem{fmt.Sprint(i), fmt.Sprint(from + i)})
		}
	case "ints-var":
		// the result of ints() kept in a variable and ranged over like any other value - also twice
		from := t.Range(0, 3)
		cnt := t.Range(1, 4)
		s = mk(k)
		s.consumable = true
		s.prelude = fmt.Sprintf("{{%s := ints(%d, %d)}}", s.name, from, from+cnt)
		for i := 0; i < cnt; i++ {
			s.elems = append(s.elems, elem{fmt.Sprint(i), fmt.Sprint(from + i)})
		}
	case "map1":
		s = mk(k)
		if n > 0 {
			s.elems = []elem{{fmt.Sprintf("k%d", id), fmt.Sprintf("v%d", id)}}
		}
	case "mapN":
		s = mk(k)
		s.unordered = true
		if n == 1 {
			n = 2
		}
		if t.Choose(4) == 3 {
			n = t.Range(9, 13) // beyond the 8 entries a Go map keeps in one group
		}
		for i := 0; i < n; i++ {
			s.elems = append(s.elems, elem{fmt.Sprintf("k%d_%d", id, i), fmt.Sprintf("v%d_%d", id, i)})
		}
	case "ranger-idx":
		s = mk(k)
		s.consumable = true
		for i := 0; i < n; i++ {
			s.elems = append(s.elems, elem{fmt.Sprint(i), fmt.Sprintf("r%d_%d", id, i)})
		}
	case "ranger-plain":
		s = mk(k)
		s.consumable, s.index = true, false
		s.holes = t.Choose(3) == 2
		for i := 0; i < n; i++ {
			if s.holes && i%2 == 1 {
				s.elems = append(s.elems, elem{"", ""})
				continue
			}
			s.elems = append(s.elems, elem{"", fmt.Sprintf("p%d_%d", id, i)})
		}
	case "ranger-chan-typed":
		s = mk(k)
		s.consumable, s.index = true, false
		for i := 0; i < n; i++ {
			s.elems = append(s.elems, elem{"", fmt.Sprintf("F:f%d_%d", id, i)})
		}
	case "ranger-slice-typed":
		s = mk(k)
		s.consumable, s.index = true, true
		for i := 0; i < n; i++ {
			s.elems = append(s.elems, elem{fmt.Sprint(i), fmt.Sprintf("E:y%d_%d", id, i)})
		}
	case "chan", "chan-iface":
		s = mk(k)
		s.consumable, s.index = true, false
		for i := 0; i < n; i++ {
			s.elems = append(s.elems, elem{"", fmt.Sprintf("c%d_%d", id, i)})
		}
		if k == "chan-iface" && n > 0 {
			// a channel of interface values, one of which is nil: an element like any other (it renders
			// as fmt's <nil>), not the end of the channel
			s.elems[t.Choose(n)].val = c5nilText
		}
		for i := 0; i <= n; i++ {
			// seconds to hours of virtual time; 0 = immediately
			s.gaps = append(s.gaps, []int{0, 1, 60, 3600, 43200}[t.Choose(5)])
		}
	}
	g.subs = append(g.subs, s)
	return s
}

func (g *c5gen) list(depth int, max int) []c5node {
	n := g.t.Range(1, max)
	var out []c5node
	saved := g.vis
	g.vis = append([]string(nil), g.vis...)
	for i := 0; i < n; i++ {
		out = append(out, g.stmt(depth))
	}
	g.vis = saved
	return out
}

func (g *c5gen) leafBody() []c5node {
	return []c5node{c5text{g.mark()}}
}

func (g *c5gen) stmt(depth int) c5node {
	g.budget--
	deep := depth >= 3 || g.budget <= 0
	w := func(on bool, wt int) int {
		if on {
			return wt
		}
		return 0
	}
	switch g.t.Weighted(2, 1, w(!deep, 3), w(!deep, 4), w(g.useTry && !deep, 1), w(g.useTry, 1), w(len(g.vis) > 0, 2), 1, w(!deep, 1), 1, 1) {
	case 0:
		return c5text{g.mark()}
	case 1:
		return c5ctx{}
	case 2:
		n := g.t.Range(1, 3)
		f := &c5if{}
		for i := 0; i < n; i++ {
			f.conds = append(f.conds, condTable[g.t.Choose(len(condTable))])
			f.bodies = append(f.bodies, append([]c5node{c5text{g.mark()}}, g.list(depth+1, 2)...))
		}
		if g.t.Choose(3) > 0 {
			f.hasEls = true
			f.els = append([]c5node{c5text{g.mark()}}, g.list(depth+1, 2)...)
		}
		return f
	case 3:
		r := &c5range{}
		// reuse an existing subject sometimes (re-ranging: stateless ones render again, consumable ones are spent)
		if len(g.subs) > 0 && g.t.Choose(4) == 3 {
			r.s = g.subs[g.t.Choose(len(g.subs))]
		} else {
			r.s = g.newSubject()
		}
		r.form = g.t.Choose(3)
		if r.form == 2 && !r.s.index {
			r.form = 1
		}
		if r.form > 0 {
			g.nVar++
			r.a = fmt.Sprintf("a%d", g.nVar)
			r.b = fmt.Sprintf("b%d", g.nVar)
			r.assign = g.t.Choose(4) == 3 && !r.s.unordered // after a multi-entry map the last binding depends on map order
			// ':=' may reuse (shadow) names that are visible here, e.g. those of an enclosing range
			if !r.assign && len(g.vis) > 0 && g.t.Choose(3) == 2 {
				r.a = g.vis[g.t.Choose(len(g.vis))]
				if g.t.Choose(2) == 1 {
					if nb := g.vis[g.t.Choose(len(g.vis))]; nb != r.a {
						r.b = nb
					}
				}
			}
		}
		if !r.assign && r.form == 2 && g.t.Choose(4) == 3 {
			r.discardB = true
		}
		if !r.assign && r.form == 1 && g.t.Choose(5) == 4 {
			r.discardA = true
		}
		if r.assign && r.form == 2 && g.t.Choose(4) == 3 {
			r.discardKey = true
		}
		savedVis := g.vis
		if r.assign {
			// the pre-declarations live in the enclosing list from here on
			g.vis = append(g.vis, r.a)
			savedVis = append(savedVis, r.a)
			if r.form == 2 {
				g.vis = append(g.vis, r.b)
				savedVis = append(savedVis, r.b)
			}
		} else if r.form > 0 {
			g.vis = append([]string(nil), g.vis...)
			if !r.discardA {
				g.vis = append(g.vis, r.a)
			}
			if r.form == 2 && !r.discardB {
				g.vis = append(g.vis, r.b)
			}
		}
		if r.s.unordered {
			r.wrapN = true
			r.body = []c5node{c5text{g.mark()}}
		} else {
			r.body = append([]c5node{c5text{g.mark()}}, g.list(depth+1, 2)...)
		}
		g.vis = savedVis
		if g.t.Choose(2) == 1 {
			r.hasEls = true
			r.els = append([]c5node{c5text{g.mark()}}, g.list(depth+1, 2)...)
		}
		return r
	case 4:
		return &c5try{body: g.list(depth+1, 3)}
	case 5:
		g.nFail++
		return c5fail{g.nFail}
	case 6:
		return c5var{g.vis[g.t.Choose(len(g.vis))]}
	case 7:
		// a plain declaration in this list: a fresh name, or one that shadows a visible name
		g.nLet++
		name := fmt.Sprintf("x%dv", g.nLet)
		if len(g.vis) > 0 && g.t.Choose(3) == 2 {
			name = g.vis[g.t.Choose(len(g.vis))]
		}
		g.vis = append(g.vis, name)
		return c5let{name, fmt.Sprintf("L%d", g.nLet)}
	case 8:
		id := len(g.mixed)
		m := &c5mixed{name: fmt.Sprintf("mix%d", id)}
		g.nVar++
		m.a = fmt.Sprintf("a%d", g.nVar)
		n := g.t.Range(2, 4)
		for i := 0; i < n; i++ {
			sub := &subject{kind: "ranger-idx", index: true}
			if g.t.Choose(2) == 1 {
				sub = &subject{kind: "ranger-plain", index: false}
			}
			k := g.t.Range(0, 3)
			for j := 0; j < k; j++ {
				sub.elems = append(sub.elems, elem{fmt.Sprint(j), fmt.Sprintf("x%d_%d_%d", id, i, j)})
			}
			m.elems = append(m.elems, sub)
		}
		m.iface = g.t.Bool(1, 2)
		g.mixed = append(g.mixed, m)
		return m
	case 9:
		f := &c5iface{name: fmt.Sprintf("ifc%d", len(g.ifaces)), form: 2 * g.t.Choose(2)}
		g.nVar++
		f.v = fmt.Sprintf("b%d", g.nVar)
		n := g.t.Range(1, 5)
		for i := 0; i < n; i++ {
			f.vals = append(f.vals, g.t.Choose(len(ifaceVals)))
		}
		g.ifaces = append(g.ifaces, f)
		return f
	case 10:
		j := &c5json{name: fmt.Sprintf("js%d", len(g.jsons))}
		g.nVar++
		j.a, j.b = fmt.Sprintf("a%d", g.nVar), fmt.Sprintf("b%d", g.nVar)
		n := g.t.Range(2, 5)
		for i := 0; i < n; i++ {
			j.kinds = append(j.kinds, g.t.Choose(5))
		}
		g.jsons = append(g.jsons, j)
		return j
	}
	return c5text{g.mark()}
}

// ---- rendering to jet source

func c5src(b *strings.Builder, ns []c5node) {
	for _, n := range ns {
		switch n := n.(type) {
		case c5text:
			b.WriteString(n.s)
		case c5ctx:
			b.WriteString("{{.}};")
		case c5var:
			b.WriteString("<" + n.name + "={{" + n.name + "}}>")
		case c5let:
			fmt.Fprintf(b, "{{%s := %q}}", n.name, n.val)
		case *c5mixed:
			fmt.Fprintf(b, "{{range %s}}{{range %s := .}}<{{%s}}>{{end}}|{{end}}", n.name, n.a, n.a)
		case *c5json:
			fmt.Fprintf(b, "{{range %s}}{{range %s, %s := .}}<{{%s}}={{%s}}>{{end}}|{{end}}", n.name, n.a, n.b, n.a, n.b)
		case *c5iface:
			if n.form == 0 {
				fmt.Fprintf(b, "<if:{{range %s}}{{if .}}T{{else}}F{{end}}{{end}}>", n.name)
			} else {
				fmt.Fprintf(b, "<if:{{range _, %s := %s}}{{if %s}}T{{else}}F{{end}}{{end}}>", n.v, n.name, n.v)
			}
		case *c5if:
			for i, c := range n.conds {
				if i == 0 {
					b.WriteString("{{if " + c.text + "}}")
				} else {
					b.WriteString("{{else if " + c.text + "}}")
				}
				c5src(b, n.bodies[i])
			}
			if n.hasEls {
				b.WriteString("{{else}}")
				c5src(b, n.els)
			}
			b.WriteString("{{end}}")
		case *c5range:
			op := ":="
			if n.assign {
				op = "="
				b.WriteString(`{{` + n.a + ` := "u"}}`)
				if n.form == 2 {
					b.WriteString(`{{` + n.b + ` := "u"}}`)
				}
			}
			if n.wrapN {
				b.WriteString("<<")
			}
			va, vb := n.a, n.b
			if n.discardA {
				va = "_"
			}
			if n.discardB {
				vb = "_"
			}
			if n.discardKey {
				va = "_"
			}
			switch n.form {
			case 0:
				b.WriteString("{{range " + n.s.expr + "}}")
			case 1:
				b.WriteString("{{range " + va + " " + op + " " + n.s.expr + "}}")
			case 2:
				b.WriteString("{{range " + va + ", " + vb + " " + op + " " + n.s.expr + "}}")
			}
			b.WriteString("(")
			switch {
			case n.form == 1 && !n.discardA:
				b.WriteString("{{" + n.a + "}}~")
			case n.form == 1:
				b.WriteString("_~")
			case n.form == 2 && !n.discardB:
				b.WriteString("{{" + n.a + "}}={{" + n.b + "}}~")
			case n.form == 2:
				b.WriteString("{{" + n.a + "}}=_~")
			}
			b.WriteString("{{.}}:")
			c5src(b, n.body)
			b.WriteString(")")
			if n.hasEls {
				b.WriteString("{{else}}")
				c5src(b, n.els)
			}
			b.WriteString("{{end}}")
			if n.wrapN {
				b.WriteString(">>")
			}
			if n.assign {
				b.WriteString("<after:{{" + n.a + "}}")
				if n.form == 2 {
					b.WriteString(",{{" + n.b + "}}")
				}
				b.WriteString(">")
			}
		case *c5try:
			b.WriteString("{{try}}")
			c5src(b, n.body)
			b.WriteString("{{end}}")
		case c5fail:
			fmt.Fprintf(b, "{{fail(%d)}}", n.id)
		}
	}
}

// ---- reference evaluation by the documented rules

type c5eval struct {
	left     map[*subject]int // consumable subjects: elements already consumed
	failAt   int
	calls    int
	elsTaken int
	iters    int
	ifs      int
	frames   []map[string]string // lexical scopes, innermost last
}

type c5abort struct{}

func (e *c5eval) lookup(name string) string {
	for i := len(e.frames) - 1; i >= 0; i-- {
		if v, ok := e.frames[i][name]; ok {
			return v
		}
	}
	return "<undeclared>"
}

func (e *c5eval) assign(name, val string) {
	for i := len(e.frames) - 1; i >= 0; i-- {
		if _, ok := e.frames[i][name]; ok {
			e.frames[i][name] = val
			return
		}
	}
}

// run evaluates one statement list in its own lexical scope.
func (e *c5eval) run(b *strings.Builder, ns []c5node, ctx string) {
	e.frames = append(e.frames, map[string]string{})
	depth := len(e.frames)
	defer func() { e.frames = e.frames[:depth-1] }()
	for _, n := range ns {
		switch n := n.(type) {
		case c5text:
			b.WriteString(n.s)
		case c5ctx:
			b.WriteString(ctx + ";")
		case c5var:
			b.WriteString("<" + n.name + "=" + e.lookup(n.name) + ">")
		case c5let:
			e.frames[len(e.frames)-1][n.name] = n.val
		case *c5json:
			for i, k := range n.kinds {
				for _, kv := range n.elemsOf(i, k) {
					e.iters++
					b.WriteString("<" + kv[0] + "=" + kv[1] + ">")
				}
				b.WriteString("|")
			}
		case *c5iface:
			b.WriteString("<if:")
			for _, i := range n.vals {
				e.ifs++
				if ifaceVals[i].truth {
					b.WriteString("T")
				} else {
					b.WriteString("F")
				}
			}
			b.WriteString(">")
		case *c5mixed:
			for _, sub := range n.elems {
				// custom Rangers are stateful: a second pass over the same list finds them spent
				for e.left[sub] < len(sub.elems) {
					el := sub.elems[e.left[sub]]
					e.left[sub]++
					e.iters++
					if sub.index {
						b.WriteString("<" + el.key + ">")
					} else {
						b.WriteString("<" + el.val + ">")
					}
				}
				b.WriteString("|")
			}
		case *c5if:
			e.ifs++
			done := false
			for i, c := range n.conds {
				if c.truth {
					e.run(b, n.bodies[i], ctx)
					done = true
					break
				}
			}
			if !done && n.hasEls {
				e.run(b, n.els, ctx)
			}
		case *c5range:
			lastA, lastB := "u", "u"
			if n.assign {
				// the pre-declarations belong to the enclosing list
				e.frames[len(e.frames)-1][n.a] = "u"
				if n.form == 2 {
					e.frames[len(e.frames)-1][n.b] = "u"
				}
			} else if n.form > 0 {
				e.frames = append(e.frames, map[string]string{}) // ':=' loop variables live in a scope of their own
			}
			if n.wrapN {
				b.WriteString("<<")
			}
			// consumable subjects (channels, stateful rangers) are advanced dynamically: a nested
			// range over the same subject takes elements away from the enclosing one
			nIter := 0
			for pos := 0; ; pos++ {
				var el elem
				if n.s.consumable {
					if e.left[n.s] >= len(n.s.elems) {
						break
					}
					el = n.s.elems[e.left[n.s]]
					e.left[n.s]++
				} else {
					if pos >= len(n.s.elems) {
						break
					}
					el = n.s.elems[pos]
				}
				nIter++
				e.iters++
				b.WriteString("(")
				inner := ctx
				switch n.form {
				case 0:
					inner = el.val
				case 1:
					if n.s.index {
						lastA = el.key
						inner = el.val
					} else {
						lastA = el.val
					}
					if n.assign {
						e.assign(n.a, lastA)
					} else if !n.discardA {
						e.frames[len(e.frames)-1][n.a] = lastA
					}
					if n.discardA {
						b.WriteString("_~")
					} else {
						b.WriteString(lastA + "~")
					}
				case 2:
					lastA, lastB = el.key, el.val
					if n.discardKey {
						lastA = "u" // the key goes to '_': the variable keeps what it was declared with
					}
					if n.assign {
						if !n.discardKey {
							e.assign(n.a, lastA)
						}
						e.assign(n.b, lastB)
					} else {
						e.frames[len(e.frames)-1][n.a] = lastA
						if !n.discardB {
							e.frames[len(e.frames)-1][n.b] = lastB
						}
					}
					if n.discardB {
						b.WriteString(lastA + "=_~")
					} else {
						b.WriteString(lastA + "=" + lastB + "~")
					}
				}
				b.WriteString(inner + ":")
				e.run(b, n.body, inner)
				b.WriteString(")")
			}
			if !n.assign && n.form > 0 {
				e.frames = e.frames[:len(e.frames)-1]
			}
			if nIter == 0 && n.hasEls {
				e.elsTaken++
				e.run(b, n.els, ctx)
			}
			if n.wrapN {
				b.WriteString(">>")
			}
			if n.assign {
				b.WriteString("<after:" + lastA)
				if n.form == 2 {
					b.WriteString("," + lastB)
				}
				b.WriteString(">")
			}
		case *c5try:
			var tb strings.Builder
			nFrames := len(e.frames)
			func() {
				defer func() {
					if r := recover(); r != nil {
						if _, ok := r.(c5abort); !ok {
							panic(r)
						}
						tb.Reset()
						e.frames = e.frames[:nFrames] // scopes of the aborted constructs are gone
					}
				}()
				e.run(&tb, n.body, ctx)
			}()
			b.WriteString(tb.String())
		case c5fail:
			e.calls++
			if e.failAt > 0 && e.calls == e.failAt {
				panic(c5abort{})
			}
		}
	}
}

var reMapRegion = regexp.MustCompile(`<<((?:\([^()]*\))*)>>`)
var reChunk = regexp.MustCompile(`\([^()]*\)`)

// canon sorts the iteration chunks of multi-entry map ranges (map order is free).
func canon(s string) string {
	return reMapRegion.ReplaceAllStringFunc(s, func(m string) string {
		chunks := reChunk.FindAllString(m, -1)
		sort.Strings(chunks)
		return "<<" + strings.Join(chunks, "") + ">>"
	})
}

// c5vars builds the VarMap: condition values and fresh instances of every subject.
// elemsOf: keys and values of element i (of kind k) of the list
func (j *c5json) elemsOf(i, k int) [][2]string {
	switch k {
	case 0, 2:
		return [][2]string{{"0", fmt.Sprintf("%s_%d_p", j.name, i)}, {"1", fmt.Sprintf("%s_%d_q", j.name, i)}}
	case 1, 3:
		return [][2]string{{fmt.Sprintf("k%d", i), fmt.Sprintf("%s_%d_m", j.name, i)}}
	}
	return nil
}

func c5vars(subs []*subject, mixed []*c5mixed, ifaces []*c5iface, jsons []*c5json, p *Probes, chans *[]reflect.Value) jet.VarMap {
	vm := jet.VarMap{}
	for _, j := range jsons {
		var list []interface{}
		for i, k := range j.kinds {
			kv := j.elemsOf(i, k)
			switch k {
			case 0:
				list = append(list, []string{kv[0][1], kv[1][1]})
			case 1:
				list = append(list, map[string]string{kv[0][0]: kv[0][1]})
			case 2:
				list = append(list, []interface{}{kv[0][1], kv[1][1]})
			case 3:
				list = append(list, map[string]interface{}{kv[0][0]: kv[0][1]})
			default:
				list = append(list, []string{})
			}
		}
		vm.Set(j.name, list)
	}
	for _, f := range ifaces {
		var list []interface{}
		for _, i := range f.vals {
			list = append(list, ifaceVals[i].v)
		}
		vm.Set(f.name, list)
	}
	for _, m := range mixed {
		// a []jet.Ranger, or a []interface{} holding the same: elements are index-providing and
		// index-less custom Rangers
		var list []jet.Ranger
		for _, sub := range m.elems {
			var vals []string
			for _, e := range sub.elems {
				vals = append(vals, e.val)
			}
			if sub.index {
				list = append(list, &idxRanger{items: vals})
			} else {
				list = append(list, &plainRanger{items: vals})
			}
		}
		if m.iface {
			var wrapped []interface{}
			for _, r := range list {
				wrapped = append(wrapped, r)
			}
			vm.Set(m.name, wrapped)
		} else {
			vm.Set(m.name, list)
		}
	}
	vm.Set("cT", true).Set("cF", false).Set("zi", 0).Set("pi", 5).Set("zf", 0.0).Set("pf", 1.5)
	vm.Set("zs", "").Set("ns", "x").Set("s0", "0")
	vm.Set("ifs", c5ifaces{S: c5zstr(""), E: (*c5err)(nil), Z: c5zint(0), T: c5zstr("x")})
	vm.Set("hf", 0.5).Set("nhf", -0.5).Set("tiny", 1e-9).Set("u8z", uint8(0)).Set("u8", uint8(3)).Set("i64z", int64(0)).Set("i64", int64(-7))
	vm.Set("f32h", float32(0.5)).Set("f32z", float32(0))
	zero, empty, no := 0, "", false
	pzero := &zero
	vm.Set("pz", &zero).Set("pzs", &empty).Set("pfz", &no).Set("pst0", &stNonZero{}).Set("ppz", &pzero)
	var np *stNonZero
	vm.Set("np", np).Set("pp", &stNonZero{A: 1})
	var nm map[string]int
	vm.Set("nm", nm).Set("em", map[string]int{}).Set("fm", map[string]int{"a": 1})
	var nsl []int
	vm.Set("nsl", nsl).Set("esl", []int{}).Set("fsl", []int{1}).Set("stv", stNonZero{A: 2})
	var ni interface{}
	vm["ni"] = reflect.ValueOf(&ni).Elem()
	vm.SetFunc("fail", p.fn(true))
	for _, s := range subs {
		if s.name == "" {
			continue
		}
		switch s.kind {
		case "slice-string":
			xs := make([]string, 0, len(s.elems))
			for _, e := range s.elems {
				xs = append(xs, e.val)
			}
			vm.Set(s.name, xs)
		case "ptr-slice":
			xs := make([]string, 0, len(s.elems))
			for _, e := range s.elems {
				xs = append(xs, e.val)
			}
			vm.Set(s.name, &xs)
		case "slice-iface":
			xs := make([]interface{}, 0, len(s.elems))
			for _, e := range s.elems {
				xs = append(xs, e.val)
			}
			vm.Set(s.name, xs)
		case "slice-int":
			xs := make([]int, 0, len(s.elems))
			for _, e := range s.elems {
				var v int
				fmt.Sscan(e.val, &v)
				xs = append(xs, v)
			}
			vm.Set(s.name, xs)
		case "array":
			var a [3]string
			for i, e := range s.elems {
				a[i] = e.val
			}
			vm.Set(s.name, a)
		case "array-zero":
			vm.Set(s.name, [2]int{})
		case "map1", "mapN":
			m := map[string]string{}
			for _, e := range s.elems {
				m[e.key] = e.val
			}
			vm.Set(s.name, m)
		case "ranger-idx":
			r := &idxRanger{}
			for _, e := range s.elems {
				r.items = append(r.items, e.val)
			}
			vm.Set(s.name, r)
		case "ranger-plain":
			r := &plainRanger{holes: s.holes}
			for _, e := range s.elems {
				r.items = append(r.items, e.val)
			}
			vm.Set(s.name, r)
		case "ranger-chan-typed":
			ch := make(feedRanger, len(s.elems)+1)
			for _, e := range s.elems {
				ch <- strings.TrimPrefix(e.val, "F:")
			}
			close(ch)
			vm.Set(s.name, ch)
		case "ranger-slice-typed":
			xs := everyOther{"0"}
			for _, e := range s.elems {
				xs = append(xs, strings.TrimPrefix(e.val, "E:"), "skipped")
			}
			vm.Set(s.name, xs)
		case "chan-iface":
			ch := make(chan interface{})
			vm.Set(s.name, ch)
			*chans = append(*chans, reflect.ValueOf(ch))
			s := s
			go func() {
				for i, e := range s.elems {
					if d := s.gaps[i]; d > 0 {
						time.Sleep(time.Duration(d) * time.Second)
					}
					if e.val == c5nilText {
						ch <- nil
					} else {
						ch <- e.val
					}
				}
				if d := s.gaps[len(s.elems)]; d > 0 {
					time.Sleep(time.Duration(d) * time.Second)
				}
				close(ch)
			}()
		case "chan":
			ch := make(chan string)
			vm.Set(s.name, ch)
			*chans = append(*chans, reflect.ValueOf(ch))
			s := s
			go func() {
				for i, e := range s.elems {
					if d := s.gaps[i]; d > 0 {
						time.Sleep(time.Duration(d) * time.Second)
					}
					ch <- e.val
				}
				if d := s.gaps[len(s.elems)]; d > 0 {
					time.Sleep(time.Duration(d) * time.Second)
				}
				close(ch)
			}()
		}
	}
	return vm
}

func RunC05(env *sim.Env) {
	t := env.Tape
	if t.Choose(10) == 9 {
		// one run in ten is a re-entrant program judged by a reference model (c05rec.go)
		runC05Recursive(env)
		return
	}
	g := &c5gen{t: t, useChan: t.Choose(4) == 3, useTry: t.Choose(3) == 2, budget: 14 + 6*t.Choose(3)}
	prog := g.list(0, 4)
	var sb strings.Builder
	for _, sub := range g.subs {
		sb.WriteString(sub.prelude)
	}
	sb.WriteString("^{{.}};")
	c5src(&sb, prog)
	sb.WriteString("${{.}};")
	src := sb.String()
	full := append(append([]c5node{c5text{"^"}, c5ctx{}}, prog...), c5text{"$"}, c5ctx{})

	// fault plan: none, or the k-th dynamic fail() call (only calls inside a try are armed: the
	// statements after the try are what is judged)
	nExec := t.Range(1, 3)
	type plan struct{ failAt int }
	plans := make([]plan, nExec)
	// count dynamic fail calls in a fault-free reference evaluation
	ref := &c5eval{left: map[*subject]int{}}
	var rb strings.Builder
	ref.run(&rb, full, "TOP")
	inTryCalls := c5callsInTry(full)
	for i := range plans {
		if g.useTry && ref.calls > 0 && t.Choose(2) == 1 {
			k := 1 + t.Choose(ref.calls)
			if inTryCalls[k] {
				plans[i].failAt = k
			}
		}
	}

	body := func(tt *testing.T) {
		pools, un := installPools(env, simrt.PoolAdversarial)
		defer un()
		set, _ := NewSet(map[string]string{"/p.jet": src})
		var tmpl *jet.Template
		var perr error
		if pc := sim.Guard(func() { tmpl, perr = set.GetTemplate("/p.jet") }); pc != nil || perr != nil {
			env.Res.Invalid = "program does not parse"
			env.Res.Sample = src + fmt.Sprintf("\n%v %v", perr, pc)
			return
		}
		for xi, pl := range plans {
			for _, policy := range []simrt.PoolPolicy{simrt.PoolAdversarial, simrt.PoolFresh} {
				pools.Policy = policy
				want := &c5eval{left: map[*subject]int{}, failAt: pl.failAt}
				var wb strings.Builder
				want.run(&wb, full, "TOP")
				w := &SimWriter{}
				p := &Probes{W: w, FailAt: pl.failAt, Tag: "x"}
				var chans []reflect.Value
				vm := c5vars(g.subs, g.mixed, g.ifaces, g.jsons, p, &chans)
				var xerr error
				t0 := time.Now()
				pc := sim.Guard(func() { xerr = tmpl.Execute(w, vm, "TOP") })
				pools.AbandonOutstanding()
				// drain channels a failed body abandoned, so their producers can finish
				for _, ch := range chans {
					for {
						if _, ok := ch.Recv(); !ok {
							break
						}
					}
				}
				if g.useChan {
					env.Stat("vtime:ns", int64(time.Since(t0)))
				}
				got, exp := canon(string(w.Buf)), canon(wb.String())
				env.Event("exec %d policy=%d failAt=%d -> %016x", xi, policy, pl.failAt, sim.HashString(got))
				env.Stat("counters:executions", 1)
				env.Stat("counters:range_iterations_expected", int64(want.iters))
				env.Stat("probe:range_else_branch_expected", int64(want.elsTaken))
				env.Stat("counters:if_chains_expected", int64(want.ifs))
				if p.Fired {
					env.Stat("fault:function_panics_with_error_inside_range_body_under_try", 1)
				}
				polName := map[simrt.PoolPolicy]string{simrt.PoolAdversarial: "adversarial", simrt.PoolFresh: "fresh"}[policy]
				switch {
				case pc != nil:
					env.Violate("structure", "panic", "Execute panicked: %v\nprogram: %s", sim.Clip(pc.String(), 300), src)
				case xerr != nil:
					env.Violate("structure", "unexpected-error", "Execute failed: %v\nprogram: %s", xerr, src)
				case got != exp:
					env.Violate("structure", c5classify(prog, got, exp)+":"+polName+"-pool", "execution %d (pool policy %s, fault at fail-call %d): rendering differs from the documented structure.\nprogram:  %s\nexpected: %s\ngot:      %s\n%s\nsubjects: %s",
						xi, polName, pl.failAt, src, sim.Q(exp), sim.Q(got), firstDiff(exp, got), c5subjects(g.subs))
				}
			}
		}
		poolStats(env, pools)
	}
	if g.useChan {
		env.Stat("counters:runs_in_virtual_time_bubble", 1)
		if r := c5bubble(env.T, body); r != "" {
			if strings.Contains(r, "deadlock") {
				env.Violate("liveness", "chan-hang", "a channel range did not finish although its producer closed the channel (synctest: %s)\nprogram: %s", r, src)
			} else {
				panic("c05 bubble: " + r)
			}
		}
	} else {
		body(env.T)
	}
	nRange, nIf, kinds := c5count(prog)
	env.Res.Nontrivial = nRange+nIf > 0
	env.Res.Sig = fmt.Sprintf("%016x", sim.HashString(src+c5subjects(g.subs)+fmt.Sprint(plans)))
	env.Res.Sample = fmt.Sprintf("program: %s\nsubjects: %s\nexecutions: %v (x2 pool policies)\nexpected (first execution): %s", src, c5subjects(g.subs), plans, rb.String())
	for k := range kinds {
		env.Stat("probe:ranged_over_"+k, 1)
	}
}

// c5bubble runs f inside a synctest bubble and reports a bubble failure as text.
func c5bubble(t *testing.T, f func(*testing.T)) (failure string) {
	defer func() {
		if r := recover(); r != nil {
			failure = fmt.Sprint(r)
		}
	}()
	synctest.Test(t, f)
	return ""
}

func c5subjects(subs []*subject) string {
	var parts []string
	for _, s := range subs {
		parts = append(parts, fmt.Sprintf("%s(%s)=%v gaps=%v", s.expr, s.kind, s.elems, s.gaps))
	}
	return strings.Join(parts, "; ")
}

func c5count(ns []c5node) (nRange, nIf int, kinds map[string]bool) {
	kinds = map[string]bool{}
	var walk func([]c5node)
	walk = func(ns []c5node) {
		for _, n := range ns {
			switch n := n.(type) {
			case *c5if:
				nIf++
				for _, b := range n.bodies {
					walk(b)
				}
				walk(n.els)
			case *c5range:
				nRange++
				k := n.s.kind
				if len(n.s.elems) == 0 {
					k += "_empty"
				}
				kinds[fmt.Sprintf("%s_form%d", k, n.form)] = true
				walk(n.body)
				walk(n.els)
			case *c5try:
				walk(n.body)
			}
		}
	}
	walk(ns)
	return
}

// c5callsInTry marks which dynamic fail-call indices happen inside a try (in
// the fault-free evaluation order).
func c5callsInTry(full []c5node) map[int]bool {
	out := map[int]bool{}
	e := &c5eval{left: map[*subject]int{}}
	var walk func(ns []c5node, ctx string, inTry bool)
	// re-implementation of run() that only counts calls with the try flag
	walk = func(ns []c5node, ctx string, inTry bool) {
		for _, n := range ns {
			switch n := n.(type) {
			case *c5if:
				done := false
				for i, c := range n.conds {
					if c.truth {
						walk(n.bodies[i], ctx, inTry)
						done = true
						break
					}
				}
				if !done && n.hasEls {
					walk(n.els, ctx, inTry)
				}
			case *c5range:
				nIter := 0
				for pos := 0; ; pos++ {
					if n.s.consumable {
						if e.left[n.s] >= len(n.s.elems) {
							break
						}
						e.left[n.s]++
					} else if pos >= len(n.s.elems) {
						break
					}
					nIter++
					walk(n.body, ctx, inTry)
				}
				if nIter == 0 && n.hasEls {
					walk(n.els, ctx, inTry)
				}
			case *c5try:
				walk(n.body, ctx, true)
			case c5fail:
				e.calls++
				if inTry {
					out[e.calls] = true
				}
			}
		}
	}
	walk(full, "TOP", false)
	return out
}

// c5classify names the kind of structural difference (finding key).
var reIfSeg = regexp.MustCompile(`<if:[TF]*>`)

func c5classify(prog []c5node, got, exp string) string {
	// only the interface-wrapped condition segments differ
	if got != exp && reIfSeg.ReplaceAllString(got, "") == reIfSeg.ReplaceAllString(exp, "") {
		return "if:interface-wrapped-condition"
	}
	// crude but specific: find the innermost range/if whose markers differ in count
	count := func(s, m string) int { return strings.Count(s, m) }
	var key string
	var walk func(ns []c5node)
	walk = func(ns []c5node) {
		for _, n := range ns {
			switch n := n.(type) {
			case *c5if:
				for _, b := range n.bodies {
					if m, ok := b[0].(c5text); ok && count(got, m.s) != count(exp, m.s) && key == "" {
						key = "if:branch-choice"
					}
					walk(b)
				}
				if n.hasEls {
					if m, ok := n.els[0].(c5text); ok && count(got, m.s) != count(exp, m.s) && key == "" {
						key = "if:else-choice"
					}
					walk(n.els)
				}
			case *c5range:
				if m, ok := n.body[0].(c5text); ok && count(got, m.s) != count(exp, m.s) && key == "" {
					key = fmt.Sprintf("range:%s:form%d:count", n.s.kind, n.form)
				}
				if n.hasEls {
					if m, ok := n.els[0].(c5text); ok && count(got, m.s) != count(exp, m.s) && key == "" {
						key = fmt.Sprintf("range:%s:form%d:else", n.s.kind, n.form)
					}
					walk(n.els)
				}
				walk(n.body)
			case *c5try:
				walk(n.body)
			}
		}
	}
	walk(prog)
	if key == "" {
		key = "binding-or-order"
	}
	return key
}
