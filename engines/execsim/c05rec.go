package execsim

import (
	"fmt"
	"reflect"
	"strings"

	jet "github.com/CloudyKit/jet/v6"

	"verif/sim"
	"verif/simrt"
)

// C05, re-entrant programs: ONE range statement (with an if / else-if / else
// chain in its body) that is active several times at once, because the block
// it lives in yields itself from inside the loop body (or the template
// includes itself) - the way a tree is rendered. Loop variables, '.', the
// ranger and the else decision belong to one activation of the statement;
// anything kept per statement (on the AST node) or per Runtime shows up here.
// A reference model says what must be rendered.

type c5recShape struct {
	n          int    // recursion depth
	form       int    // 0: range X   1: range i := X   2: range i, v := X
	viaInclude bool   // the template includes itself (depth is '.'); only with form 2
	kind       int    // subject per depth: 0 slice, 1 custom Ranger with index, 2 custom Ranger without index, 3 one-entry map
	lens       [5]int // number of elements at each depth (0: the else branch is taken)
	hasElse    bool   // the range has an else branch
	twice      bool   // the body recurses twice
	pol        simrt.PoolPolicy
	polName    string
	underscore bool // form 2 written as "_, v :="
}

func (s c5recShape) String() string {
	return fmt.Sprintf("depth=%d form=%d include=%v subject-kind=%d lens=%v else=%v twice=%v underscore=%v pool=%s", s.n, s.form, s.viaInclude, s.kind, s.lens[:s.n+1], s.hasElse, s.twice, s.underscore, s.polName)
}

func (s c5recShape) providesIndex() bool { return s.kind != 2 }

func (s c5recShape) source() map[string]string {
	d, rec := "d", `{{yield r(d=dec(d))}}`
	if s.viaInclude {
		d, rec = ".", `{{include "/rinc.jet" dec(.)}}`
	}
	var b strings.Builder
	idx, val := "{{i}}", "{{v}}"
	switch s.form {
	case 0:
		b.WriteString("{{range xs(" + d + ")}}")
		idx, val = "?", "{{.}}"
	case 1:
		b.WriteString("{{range i := xs(" + d + ")}}")
		val = "{{.}}"
		if !s.providesIndex() {
			// one variable over a ranger without index: the variable is the element, '.' is unchanged
			idx, val = "?", "{{i}}"
		}
	case 2:
		if s.underscore {
			b.WriteString("{{range _, v := xs(" + d + ")}}")
			idx = "?"
		} else {
			b.WriteString("{{range i, v := xs(" + d + ")}}")
		}
	}
	pr := idx + ":" + val
	b.WriteString("<" + pr)
	b.WriteString("{{if lvl(" + d + ") == 0}}Z{{else if lvl(" + d + ") == 1}}O{{else}}M{{end}}")
	reps := 1
	if s.twice {
		reps = 2
	}
	for k := 0; k < reps; k++ {
		b.WriteString("{{if lvl(" + d + ") > 0}}" + rec + "{{end}}")
	}
	b.WriteString(pr + ">")
	if s.hasElse {
		b.WriteString("{{else}}[empty" + "{{lvl(" + d + ")}}]")
	}
	b.WriteString("{{end}}")
	if s.viaInclude {
		return map[string]string{
			"/rinc.jet":  b.String(),
			"/rmain.jet": fmt.Sprintf(`({{include "/rinc.jet" %d}})`, s.n),
		}
	}
	return map[string]string{
		"/rlib.jet":  "{{block r(d=0)}}" + b.String() + "{{end}}",
		"/rmain.jet": fmt.Sprintf(`{{import "/rlib.jet"}}({{yield r(d=%d)}})`, s.n),
	}
}

func (s c5recShape) elems(d int) (keys, vals []string) {
	for j := 0; j < s.lens[d]; j++ {
		k := fmt.Sprint(j)
		if s.kind == 3 {
			k = fmt.Sprintf("k%d", d)
		}
		keys = append(keys, k)
		vals = append(vals, fmt.Sprintf("d%de%d", d, j))
	}
	return
}

// model: what one activation at depth d renders
func (s c5recShape) model(d int) string {
	keys, vals := s.elems(d)
	if len(vals) == 0 {
		if s.hasElse {
			return fmt.Sprintf("[empty%d]", d)
		}
		return ""
	}
	var b strings.Builder
	for j := range vals {
		idx := keys[j]
		if s.form == 0 || (s.form == 2 && s.underscore) || (s.form == 1 && !s.providesIndex()) {
			idx = "?"
		}
		pr := idx + ":" + vals[j]
		b.WriteString("<" + pr)
		switch {
		case d == 0:
			b.WriteString("Z")
		case d == 1:
			b.WriteString("O")
		default:
			b.WriteString("M")
		}
		if d > 0 {
			b.WriteString(s.model(d - 1))
			if s.twice {
				b.WriteString(s.model(d - 1))
			}
		}
		b.WriteString(pr + ">")
	}
	return b.String()
}

func runC05Recursive(env *sim.Env) {
	t := env.Tape
	sh := c5recShape{n: t.Range(1, 3), form: t.Choose(3), kind: t.Choose(4), hasElse: t.Bool(2, 3), twice: t.Bool(1, 3)}
	if sh.form == 2 {
		sh.viaInclude = t.Bool(1, 2)
		sh.underscore = t.Bool(1, 4)
	}
	if sh.kind == 2 && sh.form == 2 {
		sh.form = 1 // two variables need an index
		sh.viaInclude, sh.underscore = false, false
	}
	for d := 0; d <= sh.n; d++ {
		sh.lens[d] = t.Range(0, 3)
		if d == sh.n && t.Choose(4) > 0 && sh.lens[d] == 0 {
			sh.lens[d] = 2 // most programs recurse at all
		}
		if sh.kind == 3 && sh.lens[d] > 1 {
			sh.lens[d] = 1
		}
	}
	if t.Bool(1, 2) {
		sh.pol, sh.polName = simrt.PoolAdversarial, "adversarial"
	} else {
		sh.pol, sh.polName = simrt.PoolFresh, "fresh"
	}
	pools, un := installPools(env, sh.pol)
	defer un()
	files := sh.source()
	set, _ := NewSet(files)
	tm, err := set.GetTemplate("/rmain.jet")
	if err != nil {
		env.Res.Invalid = "recursive range program does not parse: " + err.Error()
		return
	}
	want := "(" + sh.model(sh.n) + ")"
	for round := 0; round < 2; round++ {
		vm := jet.VarMap{}
		vm.Set("dec", func(n int) int { return n - 1 })
		vm.Set("lvl", func(n int) int { return n })
		vm.SetFunc("xs", func(a jet.Arguments) reflect.Value {
			var d int
			if v := a.Get(0); v.Kind() == reflect.Float64 {
				d = int(v.Float())
			} else {
				d = int(v.Int())
			}
			keys, vals := sh.elems(d)
			switch sh.kind {
			case 1:
				return reflect.ValueOf(&idxRanger{items: vals})
			case 2:
				return reflect.ValueOf(&plainRanger{items: vals})
			case 3:
				m := map[string]string{}
				for j := range vals {
					m[keys[j]] = vals[j]
				}
				return reflect.ValueOf(m)
			}
			return reflect.ValueOf(vals)
		})
		var b strings.Builder
		var xerr error
		pc := sim.Guard(func() { xerr = tm.Execute(&b, vm, nil) })
		pools.AbandonOutstanding()
		got := b.String()
		env.Event("recursive range round %d -> %q err=%v", round, got, xerr)
		desc := fmt.Sprintf("program: %s\n%s", sh, describeFiles(files))
		switch {
		case pc != nil:
			env.Violate("structure", "re-entrant-range:panic", "Execute panicked: %s\n%s", sim.Clip(pc.String(), 600), desc)
		case xerr != nil:
			env.Violate("structure", "re-entrant-range:error", "round %d: Execute returned %v (rendered so far %s)\n%s", round, xerr, sim.Q(got), desc)
		case got != want:
			env.Violate("structure", "re-entrant-range:"+sh.polName+"-pool", "round %d rendered %s\nthe reference model says    %s\n%s", round, sim.Q(got), sim.Q(want), desc)
		}
	}
	poolStats(env, pools)
	env.Stat("probe:re_entrant_range_programs", 1)
	env.Res.Nontrivial = strings.Count(want, "<") >= 2
	env.Res.Sig = fmt.Sprintf("rec:%016x", sim.HashString(sh.String()))
	env.Res.Sample = fmt.Sprintf("re-entrant range program: %s\n%s-> %s", sh, describeFiles(files), want)
}
