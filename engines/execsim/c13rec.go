package execsim

import (
	"fmt"
	"reflect"
	"regexp"
	"strings"

	jet "github.com/CloudyKit/jet/v6"

	"verif/sim"
	"verif/simrt"
)

// C13, re-entrant programs. A recursive block (or a template that includes
// itself) contains ONE try statement that is entered again while an earlier
// activation of the same statement is still running its body or its catch body
// - the way a tree is rendered. Everything the statement keeps per activation
// (output buffer, catch variable, saved scope/context/content) must be per
// activation; anything kept per statement or per Runtime shows up here.
//
// The program family is small enough for a reference model (recModel) to say
// exactly what must be rendered for every set of failing calls.

type recShape struct {
	n          int  // depth of the recursion
	viaInclude bool // the template includes itself (depth is '.') instead of a block yielding itself (depth is parameter d)
	pre        bool // text before the try statement
	bodyRec    bool // the body recurses before its own fault point
	bodyRange  bool // ... twice, below a range
	catchRec   bool // the catch body recurses
	catchFail  bool // the catch body has a fault point of its own (after the recursion)
	catchVar   bool // {{catch e}} vs {{catch}}
	loop       int  // the whole program is rendered this many times in one Execute (1, 3 or 1100: counters and limits)
}

func (s recShape) String() string {
	return fmt.Sprintf("depth=%d include=%v pre=%v bodyRec=%v bodyRange=%v catchRec=%v catchFail=%v catchVar=%v loop=%d", s.n, s.viaInclude, s.pre, s.bodyRec, s.bodyRange, s.catchRec, s.catchFail, s.catchVar, s.loop)
}

func (s recShape) source() map[string]string {
	d, rec := "d", `{{yield r(d=dec(d))}}`
	if s.viaInclude {
		d, rec = ".", `{{include "/rinc.jet" dec(.)}}`
	}
	var b strings.Builder
	if s.pre {
		b.WriteString("[p{{" + d + "}}]")
	}
	b.WriteString("{{try}}")
	if s.bodyRec {
		b.WriteString("{{if " + d + " > 0}}")
		if s.bodyRange {
			b.WriteString("{{range i, v := two}}" + rec + "{{end}}")
		} else {
			b.WriteString(rec)
		}
		b.WriteString("{{end}}")
	}
	b.WriteString("[b{{" + d + "}}]{{failif()}}[x]")
	pr := "[c{{" + d + "}}]"
	if s.catchVar {
		b.WriteString("{{catch e}}")
		pr = "[c{{" + d + "}}:{{errid(e)}}]"
	} else {
		b.WriteString("{{catch}}")
	}
	b.WriteString(pr)
	if s.catchRec {
		b.WriteString("{{if " + d + " > 0}}" + rec + "{{end}}")
	}
	if s.catchFail {
		b.WriteString("{{failif()}}")
	}
	b.WriteString(pr)
	b.WriteString("{{end}}")
	b.WriteString("[a{{" + d + "}} {{if isset(e)}}{{errid(e)}}{{else}}-{{end}}]")
	if s.viaInclude {
		return map[string]string{
			"/rinc.jet":  b.String(),
			"/rmain.jet": fmt.Sprintf(`<{{range q, qq := ints(0, %d)}}{{include "/rinc.jet" %d}}|{{end}}>`, s.loop, s.n),
		}
	}
	return map[string]string{
		"/rlib.jet":  "{{block r(d=0)}}" + b.String() + "{{end}}",
		"/rmain.jet": fmt.Sprintf(`{{import "/rlib.jet"}}<{{range q, qq := ints(0, %d)}}{{yield r(d=%d)}}|{{end}}>`, s.loop, s.n),
	}
}

type recModel struct {
	sh    recShape
	calls int
	fail  map[int]bool
}

func (m *recModel) failif() (int, bool) {
	m.calls++
	return m.calls, m.fail[(m.calls-1)%40+1] // the failing pattern repeats every 40 calls
}

func eid(k int) string {
	if k == 0 {
		return "-"
	}
	return fmt.Sprintf("E%d", k)
}

// r returns what one activation at depth d sends to the enclosing writer, and the number of the
// failing call whose error escapes it (0: none). outer is the error an enclosing catch body holds
// in e (activations are dynamically nested, and so are their scopes).
func (m *recModel) r(d, outer int) (string, int) {
	s := m.sh
	out := ""
	if s.pre {
		out += fmt.Sprintf("[p%d]", d)
	}
	body, berr := "", 0
	if s.bodyRec && d > 0 {
		reps := 1
		if s.bodyRange {
			reps = 2
		}
		for i := 0; i < reps && berr == 0; i++ {
			o, e := m.r(d-1, outer)
			body += o
			berr = e
		}
	}
	if berr == 0 {
		body += fmt.Sprintf("[b%d]", d)
		if k, f := m.failif(); f {
			berr = k
		} else {
			body += "[x]"
		}
	}
	if berr == 0 {
		out += body
	} else {
		cur := outer
		pr := fmt.Sprintf("[c%d]", d)
		if s.catchVar {
			cur = berr
			pr = fmt.Sprintf("[c%d:%s]", d, eid(cur))
		}
		out += pr
		if s.catchRec && d > 0 {
			o, e := m.r(d-1, cur)
			out += o
			if e != 0 {
				return out, e
			}
		}
		if s.catchFail {
			if k, f := m.failif(); f {
				return out, k
			}
		}
		out += pr
	}
	out += fmt.Sprintf("[a%d %s]", d, eid(outer))
	return out, 0
}

var reInj = regexp.MustCompile(`INJ-(\d+)-`)

var errRecCause = fmt.Errorf("the innermost cause")

func runC13Recursive(env *sim.Env) {
	t := env.Tape
	switch t.Choose(6) {
	case 3:
		runC13Hook(env)
		return
	case 4:
		runC13Quiet(env)
		return
	case 5:
		runC13Content(env)
		return
	}
	sh := recShape{
		n:          t.Range(1, 3),
		viaInclude: t.Bool(1, 2),
		pre:        t.Bool(1, 2),
		bodyRec:    t.Bool(1, 2),
		bodyRange:  t.Bool(1, 2),
		catchRec:   t.Bool(1, 2),
		catchFail:  t.Bool(1, 2),
		catchVar:   t.Choose(4) != 0,
		loop:       []int{1, 1, 1, 1, 1, 3, 3, 1100}[t.Choose(8)],
	}
	if !sh.bodyRec && !sh.catchRec {
		sh.catchRec = true
	}
	// which calls of failif() fail (the calls are numbered in execution order)
	fail := map[int]bool{}
	nf := 0
	for k := 1; k <= 40; k++ {
		if t.Choose(3) == 0 {
			fail[k] = true
			nf++
		}
	}
	pools, un := installPools(env, simrt.PoolAdversarial)
	defer un()
	files := sh.source()
	set, _ := NewSet(files)
	tm, err := set.GetTemplate("/rmain.jet")
	if err != nil {
		env.Res.Invalid = "recursive program does not parse: " + err.Error()
		return
	}
	m := &recModel{sh: sh, fail: fail}
	var wb strings.Builder
	wb.WriteString("<")
	wantErr := 0
	for q := 0; q < sh.loop && wantErr == 0; q++ {
		o, e := m.r(sh.n, 0)
		wb.WriteString(o)
		wantErr = e
		if e == 0 {
			wb.WriteString("|")
		}
	}
	if wantErr == 0 {
		wb.WriteString(">")
	}
	wantOut := wb.String()
	var firstOut string
	for round := 0; round < 2; round++ {
		calls := 0
		vm := jet.VarMap{}
		vm.Set("two", []int{0, 1})
		vm.Set("dec", func(n int) int { return n - 1 })
		vm.SetFunc("failif", func(a jet.Arguments) reflect.Value {
			calls++
			if fail[(calls-1)%40+1] {
				if calls%2 == 1 {
					// an error with a cause: what try binds to the catch variable is this error, not its cause
					panic(fmt.Errorf("INJ-%d-: %w", calls, errRecCause))
				}
				panic(fmt.Errorf("INJ-%d-", calls))
			}
			return reflect.ValueOf("")
		})
		vm.SetFunc("errid", func(a jet.Arguments) reflect.Value {
			txt := fmt.Sprint(a.Get(0).Interface())
			if mm := reInj.FindStringSubmatch(txt); mm != nil {
				return reflect.ValueOf("E" + mm[1])
			}
			return reflect.ValueOf("E?(" + txt + ")")
		})
		var b strings.Builder
		var xerr error
		pc := sim.Guard(func() { xerr = tm.Execute(&b, vm, nil) })
		pools.AbandonOutstanding()
		got := b.String()
		env.Event("recursive round %d -> %q err=%v", round, got, xerr)
		desc := fmt.Sprintf("program: %s\n%s\nfailing calls of failif(): %v", sh, describeFiles(files), sortedInts(fail, m.calls))
		switch {
		case pc != nil:
			env.Violate("re-entrant-try", "panic", "Execute panicked: %s\n%s", sim.Clip(pc.String(), 600), desc)
		case got != wantOut:
			key := "output"
			if strings.Count(got, "[c") != strings.Count(wantOut, "[c") {
				key = "catch-count"
			} else if stripIDs(got) == stripIDs(wantOut) {
				key = "catch-var"
			}
			env.Violate("re-entrant-try", key, "round %d rendered %s\nthe reference model says    %s\n%s", round, sim.Q(got), sim.Q(wantOut), desc)
		case (xerr != nil) != (wantErr != 0):
			env.Violate("re-entrant-try", "error-escape", "round %d: Execute returned err=%v; the model says the error of call %d escapes (0: none)\n%s", round, xerr, wantErr, desc)
		case xerr != nil && !strings.Contains(xerr.Error(), fmt.Sprintf("INJ-%d-", wantErr)):
			env.Violate("re-entrant-try", "error-identity", "round %d: Execute returned %v; the model says the error of call %d escapes\n%s", round, xerr, wantErr, desc)
		}
		if round == 0 {
			firstOut = got
		} else if got != firstOut {
			env.Violate("no-trace-later", "later-execution-differs", "the same recursive program rendered %s the first and %s the second time\n%s", sim.Q(firstOut), sim.Q(got), desc)
		}
	}
	// the destination fails at its k-th Write, for every k: a Write that fails loses its own bytes and,
	// when the failure is reported, everything after it - it never ADDS output. In particular a try
	// body that finished is not turned into a failed one by the delivery of its output failing.
	if sh.loop == 1 && wantErr == 0 {
		mk := func(failAt int) (string, error, *sim.Caught, int) {
			calls := 0
			vm := jet.VarMap{}
			vm.Set("two", []int{0, 1})
			vm.Set("dec", func(n int) int { return n - 1 })
			vm.SetFunc("failif", func(a jet.Arguments) reflect.Value {
				calls++
				if fail[(calls-1)%40+1] {
					panic(fmt.Errorf("INJ-%d-", calls))
				}
				return reflect.ValueOf("")
			})
			vm.SetFunc("errid", func(a jet.Arguments) reflect.Value {
				if mm := reInj.FindStringSubmatch(fmt.Sprint(a.Get(0).Interface())); mm != nil {
					return reflect.ValueOf("E" + mm[1])
				}
				return reflect.ValueOf("E?")
			})
			w := &SimWriter{FailAt: failAt}
			var xerr error
			pc := sim.Guard(func() { xerr = tm.Execute(w, vm, nil) })
			pools.AbandonOutstanding()
			return string(w.Buf), xerr, pc, w.Writes
		}
		out0, _, _, nW := mk(0)
		for k := 1; k <= nW && k <= 30; k++ {
			got, xerr, pc, _ := mk(k)
			env.Event("recursive, write %d fails -> %q err=%v", k, got, xerr)
			env.Stat("fault:writer_error", 1)
			lcp := 0
			for lcp < len(got) && lcp < len(out0) && got[lcp] == out0[lcp] {
				lcp++
			}
			desc := fmt.Sprintf("program: %s\n%s\nfailing calls of failif(): %v", sh, describeFiles(files), sortedInts(fail, m.calls))
			switch {
			case pc != nil:
				env.Violate("re-entrant-try", "writer-fault:panic", "the destination's Write %d fails: Execute panicked: %s\n%s", k, sim.Clip(pc.String(), 400), desc)
			case xerr != nil && !strings.HasPrefix(out0, got):
				env.Violate("re-entrant-try", "writer-fault:output-added", "the destination's Write %d fails and Execute reports %v: the writer holds %s, which is not a prefix of the undisturbed output %s\n%s", k, xerr, sim.Q(got), sim.Q(out0), desc)
			case xerr == nil && !(len(got) <= len(out0) && strings.HasSuffix(out0, got[lcp:])):
				env.Violate("re-entrant-try", "writer-fault:output-added", "the destination's Write %d fails (Execute returns nil): the writer holds %s, which is not the undisturbed output %s with the bytes of one Write missing\n%s", k, sim.Q(got), sim.Q(out0), desc)
			}
		}
	}
	poolStats(env, pools)
	env.Stat("probe:re_entrant_try_programs", 1)
	if sh.loop > 1000 {
		env.Stat("probe:more_than_1000_try_statements_in_one_execution", 1)
	}
	env.Stat("fault:function_panics_with_error", int64(nf))
	if wantErr != 0 {
		env.Stat("probe:error_escapes_from_catch_body_of_re_entered_try", 1)
	}
	env.Res.Nontrivial = m.calls >= 2
	env.Res.Sig = fmt.Sprintf("rec:%016x", sim.HashString(sh.String()+wantOut))
	env.Res.Sample = fmt.Sprintf("re-entrant program: %s\n%s\nfailing calls %v -> %s", sh, describeFiles(files), sortedInts(fail, m.calls), wantOut)
}

var reEID = regexp.MustCompile(`E\d+`)

func stripIDs(s string) string { return reEID.ReplaceAllString(s, "E") }

func describeFiles(files map[string]string) string {
	var b strings.Builder
	for _, p := range sim.SortedKeys(files) {
		fmt.Fprintf(&b, "--- %s\n%s\n", p, files[p])
	}
	return b.String()
}

func sortedInts(m map[int]bool, upTo int) []int {
	var out []int
	for k := 1; k <= upTo; k++ {
		if m[k] {
			out = append(out, k)
		}
	}
	return out
}

// ---- the "layout protects its hook" idiom: a try statement whose body is text plus a block
// definition; a template that extends the layout overrides the block, and the override fails. The
// try statement belongs to the layout, the failure happens in code the layout has never seen.

func runC13Hook(env *sim.Env) {
	t := env.Tape
	static := t.Bool(1, 2)  // the try body consists of text and the block only
	params := t.Bool(1, 3)  // the block has a parameter (with default)
	levels := t.Range(1, 2) // child extends base, or grandchild extends child extends base
	override := t.Choose(4) > 0
	catchVar := t.Bool(1, 2)
	failAt := t.Choose(3) // 0: the override does not fail; 1: first fault point; 2: second
	body := "[pre]"
	if !static {
		body += `{{ "act" }}`
	}
	hdr := "hook()"
	if params {
		hdr = `hook(p="dp")`
	}
	body += "{{block " + hdr + "}}[dflt]{{end}}[post]"
	catch := "{{catch}}[c]"
	if catchVar {
		catch = "{{catch e}}[c:{{errid(e)}}]"
	}
	files := map[string]string{
		"/base.jet": "<{{try}}" + body + catch + "{{end}}|{{if isset(e)}}leak{{else}}-{{end}}>",
	}
	over := "{{block " + hdr + "}}[o1]{{failif()}}[o2]{{failif()}}[o3]{{end}}"
	top := "/base.jet"
	if override {
		files["/child.jet"] = `{{extends "/base.jet"}}` + over
		top = "/child.jet"
		if levels == 2 {
			files["/grand.jet"] = `{{extends "/child.jet"}}`
			top = "/grand.jet"
		}
	}
	want := "<[pre]"
	if !static {
		want += "act"
	}
	failed := 0
	switch {
	case !override:
		want += "[dflt][post]"
	case failAt == 0:
		want += "[o1][o2][o3][post]"
	default:
		failed = failAt
		want = "<[c]"
		if catchVar {
			want = fmt.Sprintf("<[c:E%d]", failAt)
		}
	}
	want += "|->"
	pools, un := installPools(env, simrt.PoolAdversarial)
	defer un()
	set, _ := NewSet(files)
	tm, err := set.GetTemplate(top)
	if err != nil {
		env.Res.Invalid = "hook program does not parse: " + err.Error()
		return
	}
	desc := fmt.Sprintf("program: static-body=%v params=%v extends-levels=%d override=%v catch-variable=%v failing fault point=%d\n%s", static, params, levels, override, catchVar, failAt, describeFiles(files))
	for round := 0; round < 2; round++ {
		calls := 0
		vm := jet.VarMap{}
		vm.SetFunc("failif", func(a jet.Arguments) reflect.Value {
			calls++
			if calls == failAt {
				panic(fmt.Errorf("INJ-%d-", calls))
			}
			return reflect.ValueOf("")
		})
		vm.SetFunc("errid", func(a jet.Arguments) reflect.Value {
			if mm := reInj.FindStringSubmatch(fmt.Sprint(a.Get(0).Interface())); mm != nil {
				return reflect.ValueOf("E" + mm[1])
			}
			return reflect.ValueOf("E?")
		})
		var b strings.Builder
		var xerr error
		pc := sim.Guard(func() { xerr = tm.Execute(&b, vm, nil) })
		pools.AbandonOutstanding()
		got := b.String()
		env.Event("hook round %d -> %q err=%v", round, got, xerr)
		switch {
		case pc != nil:
			env.Violate("re-entrant-try", "hook:panic", "Execute panicked: %s\n%s", sim.Clip(pc.String(), 600), desc)
		case xerr != nil:
			env.Violate("error-contained", "hook:escaped", "round %d: the error raised in the overriding block escaped the layout's try statement: %v (rendered %s)\n%s", round, xerr, sim.Q(got), desc)
		case got != want:
			env.Violate("spliced-output", "hook:body-leaked", "round %d rendered %s; expected %s\n%s", round, sim.Q(got), sim.Q(want), desc)
		}
	}
	poolStats(env, pools)
	env.Stat("probe:try_around_a_block_overridden_by_an_extending_template", 1)
	if failed > 0 {
		env.Stat("fault:function_panics_with_error", 2)
	}
	env.Res.Nontrivial = true
	env.Res.Sig = fmt.Sprintf("hook:%016x", sim.HashString(desc))
	env.Res.Sample = "layout-protects-its-hook " + desc + "-> " + want
}

// runC13Quiet: try bodies that consist of assignments only - `{{try}}{{ v = risky() }}{{catch}}…` is
// the idiom - where the right-hand sides render as a side effect (includeIfExists, exec of a
// template that writes) and a later assignment fails. Such a body "renders nothing" only
// syntactically. A reference model says what reaches the writer.
func runC13Quiet(env *sim.Env) {
	t := env.Tape
	type stmt struct {
		src   string
		out   string
		fault bool
	}
	n := t.Range(1, 4)
	var body []stmt
	for i := 0; i < n; i++ {
		v := fmt.Sprintf("q%d", i)
		switch t.Choose(7) {
		case 6:
			// isset() swallows the failure of an exec'd template that was raised below a let, an if-let and
			// a range: the statement succeeds, and what the failure unwound must be back in place
			body = append(body, stmt{src: fmt.Sprintf(`{{%s := isset(exec("/qfail.jet")[0])}}`, v)})
		case 0:
			body = append(body, stmt{src: fmt.Sprintf(`{{%s := includeIfExists("/piece%d.jet")}}`, v, i%2), out: fmt.Sprintf("[piece%d]", i%2)})
		case 1:
			body = append(body, stmt{src: fmt.Sprintf(`{{%s := includeIfExists("/absent.jet")}}`, v)})
		case 2:
			// exec renders nothing: it returns the template's return value
			body = append(body, stmt{src: fmt.Sprintf(`{{%s := exec("/piece%d.jet")}}`, v, i%2)})
		case 3:
			body = append(body, stmt{src: fmt.Sprintf(`{{%s := "lit%d"}}`, v, i)})
		case 4:
			body = append(body, stmt{src: fmt.Sprintf(`{{%s := failif()}}`, v), fault: true})
		case 5:
			body = append(body, stmt{src: `{{outer = failif()}}`, fault: true})
		}
	}
	if t.Bool(1, 5) {
		// now and then the body is not quiet after all
		body = append(body, stmt{src: "[txt]", out: "[txt]"})
	}
	nFaults := 0
	for _, s := range body {
		if s.fault {
			nFaults++
		}
	}
	failAt := 0
	if nFaults > 0 {
		failAt = t.Range(0, nFaults)
	}
	catchForm := t.Choose(3) // 0 no catch, 1 {{catch}}, 2 {{catch e}}
	var src, bodyOut strings.Builder
	failed, seen := false, 0
	for _, s := range body {
		src.WriteString(s.src)
		if failed {
			continue
		}
		if s.fault {
			seen++
			if seen == failAt {
				failed = true
				continue
			}
		}
		bodyOut.WriteString(s.out)
	}
	want := "<A>"
	if !failed {
		want += bodyOut.String()
	}
	catch := ""
	switch catchForm {
	case 1:
		catch = "{{catch}}[c]"
		if failed {
			want += "[c]"
		}
	case 2:
		catch = "{{catch e}}[c:{{errid(e)}}]"
		if failed {
			want += fmt.Sprintf("[c:E%d]", failAt)
		}
	}
	want += "<Z>|-|ctx|outer0"
	files := map[string]string{
		"/qfail.jet":  `{{outer := "inner"}}{{if w := 1; true}}{{if z := 2; true}}{{range ints(7, 8)}}{{nosuchq}}{{end}}{{end}}{{end}}`,
		"/quiet.jet":  `{{outer := "outer0"}}<A>{{try}}` + src.String() + catch + `{{end}}<Z>|{{if isset(e)}}leak{{else}}-{{end}}|{{.}}|{{outer}}`,
		"/piece0.jet": "[piece0]",
		"/piece1.jet": "[piece1]",
	}
	pools, un := installPools(env, simrt.PoolAdversarial)
	defer un()
	set, _ := NewSet(files)
	tm, err := set.GetTemplate("/quiet.jet")
	if err != nil {
		env.Res.Invalid = "quiet-body program does not parse: " + err.Error()
		return
	}
	// an `outer = failif()` that does not fail assigns the empty string
	for k, s := range body {
		if strings.HasPrefix(s.src, "{{outer = ") {
			idx := 0
			for _, s2 := range body[:k+1] {
				if s2.fault {
					idx++
				}
			}
			if !failed || idx < failAt {
				want = strings.TrimSuffix(want, "outer0")
			}
		}
	}
	desc := fmt.Sprintf("program: failing fault point=%d of %d\n%s", failAt, nFaults, describeFiles(files))
	for round := 0; round < 2; round++ {
		calls := 0
		vm := jet.VarMap{}
		vm.SetFunc("failif", func(a jet.Arguments) reflect.Value {
			calls++
			if calls == failAt {
				panic(fmt.Errorf("INJ-%d-", calls))
			}
			return reflect.ValueOf("")
		})
		vm.SetFunc("errid", func(a jet.Arguments) reflect.Value {
			if mm := reInj.FindStringSubmatch(fmt.Sprint(a.Get(0).Interface())); mm != nil {
				return reflect.ValueOf("E" + mm[1])
			}
			return reflect.ValueOf("E?")
		})
		var b strings.Builder
		var xerr error
		pc := sim.Guard(func() { xerr = tm.Execute(&b, vm, "ctx") })
		pools.AbandonOutstanding()
		got := b.String()
		env.Event("quiet round %d -> %q err=%v", round, got, xerr)
		switch {
		case pc != nil:
			env.Violate("re-entrant-try", "quiet:panic", "Execute panicked: %s\n%s", sim.Clip(pc.String(), 600), desc)
		case xerr != nil:
			env.Violate("error-contained", "quiet:escaped", "round %d: the error raised in the try body escaped: %v (rendered %s)\n%s", round, xerr, sim.Q(got), desc)
		case got != want:
			env.Violate("spliced-output", "quiet:body-leaked", "round %d rendered %s; expected %s\n%s", round, sim.Q(got), sim.Q(want), desc)
		}
	}
	poolStats(env, pools)
	env.Stat("probe:try_body_of_assignments_only_with_rendering_right_hand_sides", 1)
	if failed {
		env.Stat("fault:function_panics_with_error", 2)
	}
	env.Res.Nontrivial = nFaults > 0 || bodyOut.Len() > 0
	env.Res.Sig = fmt.Sprintf("quiet:%016x", sim.HashString(desc))
	env.Res.Sample = "assignments-only try body " + desc + "-> " + want
}

// runC13Content: the failure is raised inside yielded CONTENT (or in the block body right after it
// yielded its content), below a try whose body declared variables - the unwinding crosses from the
// block's scopes back into the caller's. Afterwards the caller's variables, and the content the
// enclosing block itself was given, must be what they were. A reference model says what is rendered.
func runC13Content(env *sim.Env) {
	t := env.Tape
	innerVar := t.Bool(2, 3)    // the try body declares a variable before the yield
	panelVar := t.Bool(1, 2)    // the block declares a variable before it yields its content
	catchForm := t.Choose(3)    // 0 none, 1 {{catch}}, 2 {{catch e}}
	failAt := t.Choose(4)       // 0: nothing fails; 1: in the content; 2: in the block after the content; 3: in the try body after the yield
	twice := t.Bool(1, 3)       // the try statement is executed twice (range)
	nestedOuter := t.Bool(2, 3) // all of it happens inside a block that was itself given content
	pol, polName := simrt.PoolAdversarial, "adversarial"
	if t.Bool(1, 2) {
		pol, polName = simrt.PoolLIFO, "lifo"
	}
	body := ""
	if innerVar {
		body += `{{inner := "i"}}`
	}
	body += `{{yield panel() content}}[c1]{{failif(1)}}[c2]{{end}}[ay]{{failif(3)}}`
	catch, caught := "", ""
	switch catchForm {
	case 1:
		catch, caught = "{{catch}}[caught]", "[caught]"
	case 2:
		catch, caught = "{{catch e}}[caught:{{errid(e)}}]", fmt.Sprintf("[caught:E%d]", failAt)
	}
	stmt := `{{try}}` + body + catch + `{{end}}`
	pv, pvOut := "", ""
	if panelVar {
		pv, pvOut = `{{pv := "p"}}`, "p"
	}
	panel := `{{block panel()}}` + pv + `(panel:{{yield content}}{{failif(2)}}` + map[bool]string{true: "{{pv}}", false: ""}[panelVar] + `){{end}}`
	one := "(panel:[c1][c2]" + pvOut + ")[ay]"
	if failAt != 0 {
		one = caught
	}
	n := 1
	if twice {
		n = 2
		stmt = `{{range ints(0, 2)}}` + stmt + `{{end}}`
	}
	core := `{{user := "alice"}}<A>` + stmt + `<{{user}}>`
	want := "<A>" + strings.Repeat(one, n) + "<alice>"
	files := map[string]string{}
	if nestedOuter {
		files["/clib.jet"] = `{{block outer()}}` + core + `|{{yield content}}<Z>{{end}}` + panel
		files["/cmain.jet"] = `{{import "/clib.jet"}}{{yield outer() content}}OC{{end}}|{{isset(user)}}`
		want += "|OC<Z>|false"
	} else {
		files["/clib.jet"] = panel
		files["/cmain.jet"] = `{{import "/clib.jet"}}` + core + `<Z>`
		want += "<Z>"
	}
	pools, un := installPools(env, pol)
	defer un()
	set, _ := NewSet(files)
	tm, err := set.GetTemplate("/cmain.jet")
	if err != nil {
		env.Res.Invalid = "content program does not parse: " + err.Error()
		return
	}
	desc := fmt.Sprintf("program: failing point=%d (1 in the content, 2 in the block after its content, 3 in the try body after the yield) pool=%s\n%s", failAt, polName, describeFiles(files))
	for round := 0; round < 2; round++ {
		vm := jet.VarMap{}
		vm.SetFunc("failif", func(a jet.Arguments) reflect.Value {
			var k int
			if v := a.Get(0); v.Kind() == reflect.Float64 {
				k = int(v.Float())
			} else {
				k = int(v.Int())
			}
			if k == failAt {
				panic(fmt.Errorf("INJ-%d-", k))
			}
			return reflect.ValueOf("")
		})
		vm.SetFunc("errid", func(a jet.Arguments) reflect.Value {
			if mm := reInj.FindStringSubmatch(fmt.Sprint(a.Get(0).Interface())); mm != nil {
				return reflect.ValueOf("E" + mm[1])
			}
			return reflect.ValueOf("E?")
		})
		var b strings.Builder
		var xerr error
		pc := sim.Guard(func() { xerr = tm.Execute(&b, vm, nil) })
		pools.AbandonOutstanding()
		got := b.String()
		env.Event("content round %d -> %q err=%v", round, got, xerr)
		switch {
		case pc != nil:
			env.Violate("re-entrant-try", "content:panic", "Execute panicked: %s\n%s", sim.Clip(pc.String(), 600), desc)
		case xerr != nil:
			env.Violate("error-contained", "content:escaped", "round %d: the error escaped the try statement (or something after it failed): %v (rendered %s)\n%s", round, xerr, sim.Q(got), desc)
		case got != want:
			env.Violate("spliced-output", "content:state-after-try", "round %d rendered %s; expected %s\n%s", round, sim.Q(got), sim.Q(want), desc)
		}
	}
	poolStats(env, pools)
	env.Stat("probe:failure_inside_yielded_content_below_a_try_that_declared_variables", 1)
	if failAt != 0 {
		env.Stat("fault:function_panics_with_error", int64(2*n))
	}
	env.Res.Nontrivial = true
	env.Res.Sig = fmt.Sprintf("content:%016x", sim.HashString(desc))
	env.Res.Sample = "failure in yielded content " + desc + "-> " + want
}
