// Package execsim: single-goroutine execution simulations (C05, C10, C12, C13).
// The simulator owns the Runtime/ranger pools, the writer, the probe functions
// (fault points) and, for channel ranges, virtual time.
package execsim

import (
	"errors"
	"fmt"
	"io"
	"reflect"
	"regexp"
	"sort"
	"strings"

	jet "github.com/CloudyKit/jet/v6"

	"verif/gen"
	"verif/sim"
	"verif/simrt"
)

var reHex = regexp.MustCompile(`0x[0-9a-fA-F]+`)

// text markers the generator emits: [t03], [inc012], [liblib01] ...
var reTextMarker = regexp.MustCompile(`\[([a-z]+[0-9]+)\]`)

// Norm rewrites addresses, which differ between two otherwise identical runs.
func Norm(s string) string {
	if !strings.Contains(s, "0x") {
		return s // the common case, and outputs can be tens of kilobytes long
	}
	return reHex.ReplaceAllString(s, "0xPTR")
}

// SimWriter is the output seam: records every Write, can fail the k-th one.
type SimWriter struct {
	Buf      []byte
	Writes   int
	FailAt   int // 1-based index of the Write that fails (0: never)
	Fired    bool
	Offsets  []int // buffer length before each Write
	AfterErr int   // writes attempted after the failing one
}

var errInjectedWrite = errors.New("INJ-write: simulated writer failure")

func (w *SimWriter) Write(p []byte) (int, error) {
	w.Writes++
	w.Offsets = append(w.Offsets, len(w.Buf))
	if w.FailAt > 0 && w.Writes == w.FailAt {
		w.Fired = true
		if w.FailAt%2 == 0 && len(p) > 1 {
			// a partial write: the first half is accepted, and the error reported with n > 0
			n := len(p) / 2
			w.Buf = append(w.Buf, p[:n]...)
			return n, errInjectedWrite
		}
		return 0, errInjectedWrite
	}
	if w.Fired {
		w.AfterErr++
	}
	w.Buf = append(w.Buf, p...)
	return len(p), nil
}

// Probes are the user-function seam: mark(k) and fail(k) record the writer
// offset and dynamic call index; fail panics with an error when armed.
type Probes struct {
	W       *SimWriter
	Calls   int // dynamic probe calls so far
	FailAt  int // 1-based dynamic call index at which fail() panics (0: never)
	FailAt2 int // a second failing call (e.g. inside the catch body the first failure led to)
	// Kind of the injected failure: 0 = panic(error) (what Execute converts), 1 = panic(string),
	// 2 = a Go runtime error (nil map write). Kinds 1 and 2 are re-raised by Execute by design;
	// the caller recovers them - later executions must still be unaffected (C10).
	Kind    int
	NFired  int
	Tokens  bool // mark(K) renders a visible token "@@K.n@@" (n-th dynamic call of site K)
	perSite map[int]int
	Fired   bool
	FiredID int   // static id of the probe that fired
	IDs     []int // static id per dynamic call
	Offs    []int // writer offset per dynamic call
	Tag     string
	// Writers, when set, receives the runtime's current Writer at every dynamic call (nil when the
	// call comes from Go code that has no access to the runtime, e.g. a custom Ranger)
	Writers *[]io.Writer
}

// IDs of the Go-level probes (user callbacks the interpreter calls: seam N7).
const (
	ProbeRangerID   = 8001 // inside a custom Ranger's Range()
	ProbeRendererID = 8002 // inside a Renderer's Render()
)

// Hit is a probe call made from Go code (custom Ranger, Renderer): same bookkeeping and same
// fault plan as fail(k).
func (p *Probes) Hit(id int, w io.Writer) {
	p.Calls++
	p.IDs = append(p.IDs, id)
	off := -1
	if p.W != nil {
		off = len(p.W.Buf)
	}
	p.Offs = append(p.Offs, off)
	if p.Writers != nil {
		*p.Writers = append(*p.Writers, w)
	}
	if (p.FailAt > 0 && p.Calls == p.FailAt) || (p.FailAt2 > 0 && p.Calls == p.FailAt2) {
		p.Fired = true
		p.NFired++
		p.FiredID = id
		p.raise(id)
	}
}

func (p *Probes) raise(id int) {
	switch p.Kind {
	case 1:
		panic(fmt.Sprintf("INJ-%d-%s: simulated function failure (string panic)", id, p.Tag))
	case 2:
		var m map[string]int
		m["INJ"] = id // runtime error: assignment to entry in nil map
	case 3:
		// an error value that wraps a runtime error (what a function reports after recovering its own bug)
		var cause error
		func() {
			defer func() { cause, _ = recover().(error) }()
			var xs []int
			_ = xs[id]
		}()
		panic(fmt.Errorf("INJ-%d-%s: simulated function failure: %w", id, p.Tag, cause))
	}
	panic(fmt.Errorf("INJ-%d-%s: simulated function failure", id, p.Tag))
}

// probeRanger is a custom index-providing Ranger whose Range() is a fault point.
type probeRanger struct {
	p     *Probes
	items []string
	i     int
}

func (r *probeRanger) Range() (reflect.Value, reflect.Value, bool) {
	r.p.Hit(ProbeRangerID, nil)
	if r.i >= len(r.items) {
		return reflect.Value{}, reflect.Value{}, true
	}
	r.i++
	return reflect.ValueOf(r.i - 1), reflect.ValueOf(r.items[r.i-1]), false
}
func (r *probeRanger) ProvidesIndex() bool { return true }

// indexlessRanger is a custom Ranger that provides no index.
type indexlessRanger struct {
	items []string
	i     int
}

func (r *indexlessRanger) Range() (reflect.Value, reflect.Value, bool) {
	if r.i >= len(r.items) {
		return reflect.Value{}, reflect.Value{}, true
	}
	r.i++
	return reflect.Value{}, reflect.ValueOf(r.items[r.i-1]), false
}
func (r *indexlessRanger) ProvidesIndex() bool { return false }

// probeRenderer renders itself (bypassing the printer) and is a fault point.
type probeRenderer struct{ p *Probes }

func (r probeRenderer) Render(rt *jet.Runtime) {
	r.p.Hit(ProbeRendererID, rt.Writer)
	rt.Writer.Write([]byte("(rnd)"))
}

func (p *Probes) fn(arm bool) jet.Func {
	return func(a jet.Arguments) reflect.Value {
		id := 0
		if a.NumOfArguments() > 0 {
			v := a.Get(0)
			if v.IsValid() && v.Kind() == reflect.Float64 {
				id = int(v.Float())
			}
		}
		p.Calls++
		p.IDs = append(p.IDs, id)
		off := -1
		if p.W != nil {
			off = len(p.W.Buf)
		}
		p.Offs = append(p.Offs, off)
		if p.Writers != nil {
			*p.Writers = append(*p.Writers, a.Runtime().Writer)
		}
		if arm && ((p.FailAt > 0 && p.Calls == p.FailAt) || (p.FailAt2 > 0 && p.Calls == p.FailAt2)) {
			p.Fired = true
			p.NFired++
			p.FiredID = id
			p.raise(id)
		}
		if p.Tokens && !arm {
			if p.perSite == nil {
				p.perSite = map[int]int{}
			}
			p.perSite[id]++
			return reflect.ValueOf(fmt.Sprintf("@@%d.%d@@", id, p.perSite[id]))
		}
		return reflect.ValueOf("")
	}
}

// Call is one Execute with everything that is an input of it: the template,
// the data, and the per-call fault plan.
type Call struct {
	Tmpl        string
	Data        gen.DataSpec
	FaultProbe  int // k-th dynamic probe call panics with an error
	FaultProbe2 int // a second failing call (numbered in the run that already has the first fault)
	FaultWrite  int // k-th Write on the writer fails
	FaultKind   int // see Probes.Kind
	Tokens      bool
	NilVars     bool // Execute is called with nil variables; what the templates need is provided as Set globals
	EmptyVars   bool // with NilVars: Execute is given an empty, non-nil VarMap instead (which must stay empty)
	SetCfg      int  // which Set configuration the call runs on (C10: 0 = default escaper, 1 = no escaper + a global)
}

func (c Call) String() string {
	s := c.Tmpl
	if c.FaultProbe > 0 {
		s += fmt.Sprintf(" fault=probe-call#%d", c.FaultProbe)
	}
	if c.FaultProbe2 > 0 {
		s += fmt.Sprintf("+probe-call#%d", c.FaultProbe2)
	}
	if c.FaultKind > 0 {
		s += []string{"", "(string-panic)", "(runtime-error)"}[c.FaultKind]
	}
	if c.SetCfg > 0 {
		s += fmt.Sprintf(" on-set#%d", c.SetCfg)
	}
	if c.NilVars {
		s += " nil-variables"
	}
	if c.EmptyVars {
		s += "(empty-map)"
	}
	if c.FaultWrite > 0 {
		s += fmt.Sprintf(" fault=write#%d", c.FaultWrite)
	}
	return s
}

// Outcome is everything observable about one Execute.
type Outcome struct {
	Out    string
	Err    string // "" = nil error
	Panic  *sim.Caught
	GetErr string // GetTemplate failed
	Probes *Probes
	W      *SimWriter
	// VarsChanged: what Execute did to the caller's VarMap (an input: callers keep and reuse it),
	// apart from what the templates asked for through Runtime.LetGlobal; "" when untouched
	VarsChanged string
	Vars        jet.VarMap        // what was passed (nil in nil-variables mode)
	VarsAfter   map[string]string // its snapshot right after the call
}

// varsSnapshot describes a VarMap well enough to notice entries that were removed, added or replaced.
func varsSnapshot(vm jet.VarMap) map[string]string {
	m := map[string]string{}
	for k, v := range vm {
		d := v.Kind().String()
		switch v.Kind() {
		case reflect.Ptr, reflect.Func, reflect.Map, reflect.Slice, reflect.Chan:
			d += fmt.Sprintf("@%x", v.Pointer())
		case reflect.String, reflect.Int, reflect.Bool:
			d += fmt.Sprintf("=%v", v.Interface())
		}
		m[k] = d
	}
	return m
}

func varsDiff(before, after map[string]string) string {
	var out []string
	for _, k := range sim.SortedKeys(before) {
		if a, ok := after[k]; !ok {
			out = append(out, k+" removed")
		} else if a != before[k] {
			out = append(out, k+" replaced")
		}
	}
	for _, k := range sim.SortedKeys(after) {
		if _, ok := before[k]; !ok {
			out = append(out, k+" added")
		}
	}
	return strings.Join(out, ", ")
}

func (o Outcome) Key() string {
	p := ""
	if o.Panic != nil {
		p = "PANIC:" + Norm(o.Panic.String())
	}
	return Norm(o.Out) + "\x00" + Norm(o.Err) + "\x00" + p + "\x00" + o.GetErr
}

func (o Outcome) Failed() bool { return o.Err != "" || o.Panic != nil || o.GetErr != "" }

func (o Outcome) Describe() string {
	s := fmt.Sprintf("out=%s err=%s", sim.Q(Norm(o.Out)), sim.Q(Norm(o.Err)))
	if o.Panic != nil {
		s += " PANIC=" + sim.Q(o.Panic.String())
	}
	if o.GetErr != "" {
		s += " GetTemplate-error=" + sim.Q(o.GetErr)
	}
	return s
}

// Vars builds a fresh VarMap for one call.
func Vars(d gen.DataSpec, p *Probes) jet.VarMap {
	root := d.BuildRoot()
	vm := jet.VarMap{}
	vm.Set("root", root)
	vm.Set("item", root.Items[0])
	vm.Set("names", root.Names)
	vm.Set("none", []string{})
	vm.Set("s", "sv")
	vm.Set("n", 3)
	vm.SetFunc("fail", p.fn(true))
	vm.SetFunc("mark", p.fn(false))
	vm.Set("vfn", func(xs ...int) int { return len(xs) })
	vm.SetFunc("letg", func(a jet.Arguments) reflect.Value {
		// the Runtime API from inside a function: declare a variable in the outermost template scope
		a.Runtime().LetGlobal(a.Get(0).String(), a.Get(1).Interface())
		return reflect.ValueOf("")
	})
	vm.Set("rng", &probeRanger{p: p, items: []string{"ra", "rb"}})
	vm.Set("plain", &indexlessRanger{items: []string{"pa", "pb"}})
	vm.Set("plain0", &indexlessRanger{})
	vm.Set("gofn", func(s string, n int) string { return s })
	vm.Set("strfn", func(x fmt.Stringer) string { return "stringer" })
	vm.Set("nofn", func() string { return "nofn" })
	vm.SetFunc("lettop", func(a jet.Arguments) reflect.Value {
		// the Go-side way of declaring a variable in the current scope
		a.Runtime().Let("zqlet", "let-by-func")
		return reflect.ValueOf("")
	})
	vm.Set("nilfn", (func() string)(nil))
	vm.Set("niljf", jet.Func(nil))
	vm.Set("qf", 0.25)
	vm.Set("uhkey", struct{ ID interface{} }{[]int{1}})
	vm.Set("mksend", func() chan<- int { return make(chan int, 1) })
	vm.SetWriter("nilw", nil)
	vm.Set("ifmap", map[interface{}]string{"k": "v"})
	vm.Set("vsfn", func(xs ...string) int { return len(xs) })
	vm.Set("nilemb", struct{ *gen.Meta }{})
	vm.Set("bytesv", []byte("ab"))
	vm.Set("arrfn", func(a [4]string) int { return len(a) })
	vm.Set("zstr", "")
	vm.Set("zint", 0)
	vm.Set("zst", struct{ A int }{})
	vm.Set("rnd", probeRenderer{p})
	return vm
}

// NewSet builds a Set over a fresh in-memory loader holding the world.
func NewSet(files map[string]string, opts ...jet.Option) (*jet.Set, *jet.InMemLoader) {
	l := jet.NewInMemLoader()
	for _, p := range sim.SortedKeys(files) {
		l.Set(p, files[p])
	}
	return jet.NewSet(l, opts...), l
}

// NewSetCfg builds a Set in one of the configurations C10 moves Runtimes between.
func NewSetCfg(files map[string]string, cfg int) *jet.Set {
	if cfg == 1 {
		// the second Set holds templates of the same names with other texts: a Runtime (or anything it
		// keeps) that travels from one Set to the other must not bring templates along
		other := map[string]string{}
		for p, src := range files {
			other[p] = reTextMarker.ReplaceAllString(src, "[$1/set2]")
		}
		s, _ := NewSet(other, jet.WithSafeWriter(nil))
		s.AddGlobal("gx", "global-of-set-1")
		return s
	}
	s, _ := NewSet(files)
	return s
}

// Exec performs one call on the given Set.
func Exec(set *jet.Set, c Call, tag string) Outcome {
	w := &SimWriter{FailAt: c.FaultWrite}
	p := &Probes{W: w, FailAt: c.FaultProbe, FailAt2: c.FaultProbe2, Tag: tag, Tokens: c.Tokens, Kind: c.FaultKind}
	o := Outcome{Probes: p, W: w}
	var t *jet.Template
	var err error
	if pc := sim.Guard(func() { t, err = set.GetTemplate(c.Tmpl) }); pc != nil {
		o.Panic = pc
		return o
	}
	if err != nil {
		o.GetErr = err.Error()
		return o
	}
	vm := Vars(c.Data, p)
	if c.NilVars {
		// everything the templates refer to becomes a global of the Set; Execute gets no variables
		for _, k := range vm.SortedKeys() {
			set.AddGlobal(k, vm[k].Interface())
		}
		vm = nil
		if c.EmptyVars {
			vm = jet.VarMap{}
		}
	}
	data := c.Data.Data()
	var xerr error
	before := varsSnapshot(vm)
	beginExecution()
	o.Panic = sim.Guard(func() { xerr = t.Execute(w, vm, data) })
	endExecution()
	if xerr != nil {
		o.Err = xerr.Error()
	}
	o.VarsAfter = varsSnapshot(vm)
	o.VarsChanged = varsDiff(before, o.VarsAfter)
	o.Vars = vm
	o.Out = string(w.Buf)
	return o
}

// firstDiff describes where two strings start to differ.
func firstDiff(a, b string) string {
	n := len(a)
	if len(b) < n {
		n = len(b)
	}
	i := 0
	for i < n && a[i] == b[i] {
		i++
	}
	lo := i - 40
	if lo < 0 {
		lo = 0
	}
	ha, hb := i+60, i+60
	if ha > len(a) {
		ha = len(a)
	}
	if hb > len(b) {
		hb = len(b)
	}
	return fmt.Sprintf("first difference at byte %d: expected …%q, got …%q", i, a[lo:ha], b[lo:hb])
}

// labelAt finds the innermost "<label:" segment open at byte i of s.
func labelAt(s string, i int) string {
	if i > len(s) {
		i = len(s)
	}
	j := strings.LastIndex(s[:i], "<")
	for j >= 0 {
		rest := s[j+1:]
		k := strings.IndexAny(rest, ":>")
		if k > 0 && rest[k] == ':' && isWord(rest[:k]) {
			return rest[:k]
		}
		if j == 0 {
			break
		}
		j = strings.LastIndex(s[:j], "<")
	}
	return "output"
}

func isWord(s string) bool {
	for _, c := range s {
		if !(c >= 'a' && c <= 'z') {
			return false
		}
	}
	return len(s) > 0 && len(s) < 12
}

func diffIndex(a, b string) int {
	n := len(a)
	if len(b) < n {
		n = len(b)
	}
	i := 0
	for i < n && a[i] == b[i] {
		i++
	}
	return i
}

// HashTemplate computes a structural hash of a parsed template (AST, block
// tables, extends/imports), not following the Set it belongs to.
func HashTemplate(t *jet.Template) uint64 {
	h := &hasher{seen: map[uintptr]bool{}, h: 14695981039346656037}
	h.walk(reflect.ValueOf(t), 0)
	return h.h
}

type hasher struct {
	seen map[uintptr]bool
	h    uint64
}

func (h *hasher) mix(s string) {
	for i := 0; i < len(s); i++ {
		h.h ^= uint64(s[i])
		h.h *= 1099511628211
	}
	h.h ^= 0xff
	h.h *= 1099511628211
}

func (h *hasher) walk(v reflect.Value, depth int) {
	if !v.IsValid() {
		h.mix("<invalid>")
		return
	}
	if depth > 200 {
		h.mix("<deep>")
		return
	}
	switch v.Kind() {
	case reflect.Ptr:
		if v.IsNil() {
			h.mix("nil")
			return
		}
		p := v.Pointer()
		if h.seen[p] {
			h.mix("<seen>")
			return
		}
		h.seen[p] = true
		h.walk(v.Elem(), depth+1)
	case reflect.Interface:
		if v.IsNil() {
			h.mix("nil")
			return
		}
		h.mix(v.Elem().Type().String())
		h.walk(v.Elem(), depth+1)
	case reflect.Struct:
		t := v.Type()
		h.mix(t.String())
		for i := 0; i < v.NumField(); i++ {
			f := t.Field(i)
			if f.Name == "set" || f.Name == "lex" {
				continue
			}
			h.mix(f.Name)
			h.walk(v.Field(i), depth+1)
		}
	case reflect.Slice, reflect.Array:
		if v.Kind() == reflect.Slice && v.IsNil() {
			h.mix("nilslice")
			return
		}
		h.mix(fmt.Sprintf("len%d", v.Len()))
		if v.Type().Elem().Kind() == reflect.Uint8 {
			b := make([]byte, v.Len())
			for i := range b {
				b[i] = byte(v.Index(i).Uint())
			}
			h.mix(string(b))
			return
		}
		for i := 0; i < v.Len(); i++ {
			h.walk(v.Index(i), depth+1)
		}
	case reflect.Map:
		if v.IsNil() {
			h.mix("nilmap")
			return
		}
		keys := v.MapKeys()
		ks := make([]string, len(keys))
		for i, k := range keys {
			ks[i] = fmt.Sprint(k)
		}
		idx := make([]int, len(keys))
		for i := range idx {
			idx[i] = i
		}
		sort.Slice(idx, func(a, b int) bool { return ks[idx[a]] < ks[idx[b]] })
		h.mix(fmt.Sprintf("map%d", len(keys)))
		for _, i := range idx {
			h.mix(ks[i])
			h.walk(v.MapIndex(keys[i]), depth+1)
		}
	case reflect.String:
		h.mix(v.String())
	case reflect.Bool:
		h.mix(fmt.Sprint(v.Bool()))
	case reflect.Int, reflect.Int8, reflect.Int16, reflect.Int32, reflect.Int64:
		h.mix(fmt.Sprint(v.Int()))
	case reflect.Uint, reflect.Uint8, reflect.Uint16, reflect.Uint32, reflect.Uint64, reflect.Uintptr:
		h.mix(fmt.Sprint(v.Uint()))
	case reflect.Float32, reflect.Float64:
		h.mix(fmt.Sprint(v.Float()))
	case reflect.Complex64, reflect.Complex128:
		h.mix(fmt.Sprint(v.Complex()))
	case reflect.Func, reflect.Chan, reflect.UnsafePointer:
		if v.IsNil() {
			h.mix("nil")
		} else {
			h.mix("fn")
		}
	}
}

// installPools puts simulated pools in place for the duration of a run.
func installPools(env *sim.Env, policy simrt.PoolPolicy) (*simrt.Pools, func()) {
	// the struct field cache is process-wide: start every run from the same (empty) state so that a
	// run is a function of its tape alone
	jet.VerifResetStructFieldCache()
	p := &simrt.Pools{Tape: env.Tape, Policy: policy}
	p.Trace = func(format string, a ...any) { env.Event(format, a...) }
	un := p.Install()
	// a deterministic measure of how much work an execution is: the number of hook sites it passes
	// (every function and global resolution, every struct field access) - see Steps()
	steps, execStart = 0, 0
	jet.VerifHooks.Yield = func(string) {
		steps++
		if steps-execStart > HardStepsPerExecution {
			// far beyond anything an engine would use: stop this execution (every further step fails too,
			// so try statements and isset() cannot keep it going); the run is then dropped as invalid
			panic(tooExpensive{})
		}
	}
	return p, func() { jet.VerifHooks.Yield = nil; un() }
}

var steps, execStart int64

// tooExpensive aborts an execution (and then the run) whose cost explodes: generated worlds can nest
// ranges over long lists below yields below ranges; one such Execute runs for minutes.
type tooExpensive struct{}

const HardStepsPerExecution = 1500000

// DropIfTooExpensive is deferred by the engines: a run that met such a template is not judged.
func DropIfTooExpensive(env *sim.Env) {
	if r := recover(); r != nil {
		if _, ok := r.(tooExpensive); ok {
			// not judged: counted as invalid. The driver reports liveness/step-budget only when such runs
			// are far more frequent than generated worlds explain (a loop the library does not leave).
			env.Res.Violations = nil
			env.Violate("liveness", "step-budget", "one Execute passed more than %d hook sites (function, global and field resolutions) and was stopped", HardStepsPerExecution)
			env.Res.Invalid = "a template of the generated world costs more than 1.5 million steps to execute"
			env.Res.Nontrivial = false
			return
		}
		panic(r)
	}
}

func beginExecution() { execStart = steps }

func endExecution() {
	if steps-execStart > HardStepsPerExecution {
		panic(tooExpensive{})
	}
}

// Steps returns the work counter; engines skip templates whose fault-free execution is so expensive
// that hundreds of faulted re-executions would run into the watchdog (a "hang" that is only cost).
func Steps() int64 { return steps }

// MaxStepsPerExecution: templates costlier than this are not used as fault-enumeration subjects.
const MaxStepsPerExecution = 20000

func poolStats(env *sim.Env, p *simrt.Pools) {
	env.Stat("pool:runtime_fresh", p.RtFresh)
	env.Stat("pool:runtime_reused", p.RtReused)
	env.Stat("probe:runtime_reused_right_after_failed_execution", p.RtReusedAfterFail)
	env.Stat("pool:ranger_fresh", p.RgFresh)
	env.Stat("pool:ranger_reused", p.RgReused)
	env.Stat("probe:ranger_reused_by_nested_or_later_range", p.RgReusedNested)
	env.Stat("probe:object_put_into_pool_twice", p.DoublePuts)
}

type jetSet struct{ set *jet.Set }

// execWithWriterWatch is Exec, and additionally records at which dynamic probe
// calls the runtime's current Writer was not the real writer (i.e. the call
// happened while an enclosing try or exec had swapped the destination).
func execWithWriterWatch(s *jetSet, c Call, nestedAt map[int]bool) Outcome {
	o, _ := execWatch(s, c, nestedAt)
	return o
}

// execWatch additionally returns, per dynamic probe call (1-based index), the
// identity of the runtime's current Writer at that call.
func execWatch(s *jetSet, c Call, nestedAt map[int]bool) (Outcome, []io.Writer) {
	var writers []io.Writer
	writers = append(writers, nil)
	w := &SimWriter{FailAt: c.FaultWrite}
	p := &Probes{W: w, FailAt: c.FaultProbe, FailAt2: c.FaultProbe2, Tag: "x", Tokens: c.Tokens, Kind: c.FaultKind}
	o := Outcome{Probes: p, W: w}
	var t *jet.Template
	var err error
	if pc := sim.Guard(func() { t, err = s.set.GetTemplate(c.Tmpl) }); pc != nil {
		o.Panic = pc
		return o, writers
	}
	if err != nil {
		o.GetErr = err.Error()
		return o, writers
	}
	p.Writers = &writers
	vm := Vars(c.Data, p)
	inner := p.fn(false)
	// "is this call inside a try/exec?" is decided by comparing the runtime's current Writer with
	// the one seen at the root template's first statement (mark 9000, top level by construction),
	// not with the SimWriter itself: an implementation may legitimately wrap the caller's writer
	var w0 io.Writer
	vm.SetFunc("mark", func(a jet.Arguments) reflect.Value {
		cur := a.Runtime().Writer
		if w0 == nil && len(writers) == 1 {
			w0 = cur
		}
		if w0 != nil && cur != w0 {
			nestedAt[p.Calls+1] = true
		}
		return inner(a)
	})
	data := c.Data.Data()
	var xerr error
	beginExecution()
	o.Panic = sim.Guard(func() { xerr = t.Execute(w, vm, data) })
	endExecution()
	if xerr != nil {
		o.Err = xerr.Error()
	}
	o.Out = string(w.Buf)
	return o, writers
}
