package execsim

import (
	"fmt"
	"os"
	"testing"

	"verif/gen"
)

// TestClassTable prints what each failure class yields on a fixed two-line template (triage aid).
func TestClassTable(t *testing.T) {
	if os.Getenv("DBG_CLASSES") == "" {
		t.Skip()
	}
	d := gen.DataSpec{Title: "t", NItems: 1, NNames: 1, Tag: 1}
	for _, fc := range failClasses {
		files := map[string]string{"/t.jet": gen.ZBlock + "\nA{{mark(1)}}B\nsecond " + fc.Text + " tail\n", "/zinc.jet": "zinc", "/zbroken.jet": "broken {{ if }} template", "/zbadref.jet": `{{ extends "/zz/nowhere.jet" }}x`}
		set, _ := NewSet(files)
		o := Exec(set, Call{Tmpl: "/t.jet", Data: d}, "x")
		f, l, ok := position(o.Err, []string{"/t.jet", "/zinc.jet"})
		fmt.Printf("%-40s %-34s pos=%v %s:%d out=%q err=%q", fc.Name, fc.Text, ok, f, l, o.Out, o.Err)
		if o.Panic != nil {
			fmt.Printf(" PANIC=%v", o.Panic.Value)
		}
		fmt.Println()
	}
}
