// Package parsesim: C02 - parsing is total (DESIGN.md §6 C02).
//
// Each run builds a small world of template files, chooses a delimiter
// configuration, mutates the sources, chooses a loader fault plan for the files
// reached through extends/import and calls Set.Parse and Set.GetTemplate for
// every file, each call inside its own testing/synctest bubble (a lexer
// goroutine still blocked when the call has returned makes the bubble
// deadlock: a deterministic goroutine-leak oracle). The worker process is the
// crash boundary: a panic inside the lexer goroutine cannot be recovered and
// kills the worker, which the driver observes.
package parsesim

import (
	"fmt"
	"regexp"
	"runtime/debug"
	"strconv"
	"strings"
	"testing"
	"testing/synctest"

	jet "github.com/CloudyKit/jet/v6"

	"verif/engines/loadersim"
	"verif/gen"
	"verif/sim"
)

type delims struct {
	name            string
	l, r, cl, cr    string // effective markers
	custom, ccustom bool
	// what is passed to WithDelims / WithCommentDelims when it differs from the effective
	// markers: an empty string leaves that side at its default (one-sided configurations)
	optL, optR, optCL, optCR string
	oneSided                 bool
}

var delimConfigs = []delims{
	{name: "default", l: "{{", r: "}}", cl: "{*", cr: "*}"},
	{name: "square", l: "[[", r: "]]", cl: "{*", cr: "*}", custom: true},
	{name: "single-byte", l: "<", r: ">", cl: "{*", cr: "*}", custom: true},
	{name: "utf8", l: "«", r: "»", cl: "⟦", cr: "⟧", custom: true, ccustom: true},
	{name: "shared-first-byte", l: "{%", r: "%}", cl: "{#", cr: "#}", custom: true, ccustom: true},
	{name: "custom-comment-only", l: "{{", r: "}}", cl: "/*", cr: "*/", ccustom: true},
	{name: "long", l: "<?jet", r: "?>", cl: "<!--", cr: "-->", custom: true, ccustom: true},
	{name: "long-right", l: "{{{", r: "}}}", cl: "{*", cr: "*}", custom: true},
	{name: "right-begins-with-space", l: "<!--", r: " -->", cl: "{*", cr: "*}", custom: true},
	{name: "right-begins-with-dash", l: "<%", r: "-%>", cl: "{*", cr: "*}", custom: true},
	{name: "right-is-space-and-default", l: "{{", r: " }}", cl: "{*", cr: "*}", custom: true},
	{name: "left-only", l: "<%", r: "}}", cl: "{*", cr: "*}", custom: true, oneSided: true, optL: "<%", optR: ""},
	{name: "right-only", l: "{{", r: "%>", cl: "{*", cr: "*}", custom: true, oneSided: true, optL: "", optR: "%>"},
	{name: "comment-left-only", l: "{{", r: "}}", cl: "/*", cr: "*}", ccustom: true, oneSided: true, optCL: "/*", optCR: ""},
}

func (d delims) options() []jet.Option {
	var o []jet.Option
	if d.custom {
		if d.oneSided {
			o = append(o, jet.WithDelims(d.optL, d.optR))
		} else {
			o = append(o, jet.WithDelims(d.l, d.r))
		}
	}
	if d.ccustom {
		if d.oneSided {
			o = append(o, jet.WithCommentDelims(d.optCL, d.optCR))
		} else {
			o = append(o, jet.WithCommentDelims(d.cl, d.cr))
		}
	}
	return o
}

var fragments = []string{
	"_", "é", "_é", "_x", "__", `"`, "'", "`", "\\", "-}}", "{{-", "{*", "*}", "{{", "}}", "{", "}",
	" catch ", " end ", " else ", " try ", " block ", " yield ", " content ", " range ", " if ", " include ", " extends ", " import ", " return ",
	"|", "(", ")", "[", "]", ":", ":=", "=", ",", ";", ".", "..", ".x", "$", "#", "@", "!", "?", "&", "&&", "||", "<", ">", "<=", "==",
	"\xff", "\xc3", "\xe2\x82", "0x", "1e", "1e+", "089", "0x1g", "'a", "'\\", "\"\\", "nil", "true", "_.", "._", "x._", "\n", "\r\n", "\t", " - ", "- ", " -",
	"-٣", "+३", "１", "٣", "-１", " -٣ ", "x٣", "Ω", "ß", "_Ω", "-Ω", "+é", ".٣", "٣.٣", "1٣", "'٣'",
	// character and string constants: empty, plain, too long, escapes (complete and cut short), unterminated
	"''", "'a'", "'ab'", `'\n'`, `'\''`, `'\`, "'''", "'é'", "'\xff'", "' '", `'\x4'`, `'\u12'`, `'\777'`, `"\x"`, `"\u12"`, "``", "`\n`", `'\x41'`, `'"'`,
	"\n-}}", "\t-}}", "\r\n-}}", " \n-}}", "\n -}}", "{{-\n", "{{-\t", "1\n-}}", ".\t-}}",
	"catch |", "catch 1", "catch (", "yield (", "block (", "block b(", "yield b(,)", "range ,", "if ;", ":= ", "x := ", "a, b := ", "a[", "a[:", "a[1:", "f(_", "f(_,_)", "| _", "include", "return",
}

var replacements = []string{" ", "{", "}", "*", "\"", "'", "_", "|", "(", ")", ".", "\n", "\xff", "é", "-"}

var debugTrace bool

type call struct {
	kind string // Parse, GetTemplate
	name string
	src  string
}

var rePos = regexp.MustCompile(`template: ([^\s:]+):(\d+):`)

func RunC02(env *sim.Env) {
	t := env.Tape
	// ---- world
	opts := gen.SwarmOptions(t)
	opts.Probes, opts.ProbeExpr, opts.Dump = false, false, false
	opts.MaxStmts = t.Range(1, 4)
	gw := gen.GenWorld(t, opts)
	dc := delimConfigs[t.Choose(len(delimConfigs))]
	files := map[string]string{}
	for p, src := range gw.Files {
		files[p] = redelim(src, dc)
	}
	names := sim.SortedKeys(files)

	// ---- mutation
	mode := t.Choose(10) // 0: none (must parse as generated, modulo delimiter quirks); 1-6: random; 7-9: ground truth invalid
	victim := names[t.Choose(len(names))]
	mutKind := "none"
	mustReject := false
	src := files[victim]
	switch {
	case mode == 0:
	case mode <= 6:
		n := t.Range(1, 4)
		var kinds []string
		for i := 0; i < n; i++ {
			var k string
			src, k = mutate(t, src, dc)
			kinds = append(kinds, k)
		}
		mutKind = strings.Join(kinds, "+")
	default:
		// ground truth needs a victim that is valid as generated under this delimiter configuration
		// (single-byte delimiters, for instance, turn ordinary text into actions)
		valid := false
		bubble(env.T, func() {
			sim.Guard(func() {
				pl := jet.NewInMemLoader()
				for p, c := range files {
					pl.Set(p, c)
				}
				_, perr := jet.NewSet(pl, dc.options()...).GetTemplate(victim)
				valid = perr == nil
			})
		})
		var ok bool
		src, mutKind, ok = groundTruth(t, src, dc, victim, names)
		mustReject = ok && valid
	}
	// sizes on a boundary: the source is padded (blank text in front or plain text behind) so that its length is a multiple of 512, 4096 or 65536 bytes, or one byte off
	if t.Choose(8) == 7 {
		unit := []int{512, 4096, 4096, 65536}[t.Choose(4)]
		want := (len(src)/unit+1)*unit + t.Choose(3) - 1
		if t.Choose(2) == 1 {
			src = strings.Repeat(" ", want-len(src)) + src // blank text may precede anything, even extends
		} else {
			src += strings.Repeat("p", want-len(src))
		}
		env.Stat("probe:source_length_on_a_block_boundary", 1)
	}
	// one run in 250: nesting as deep as the size cap allows - operators, parentheses, statements. The
	// worker's goroutine stacks are limited to 64 MiB (a service with many goroutines cannot give each
	// a gigabyte): a parser that recurses once per level without a bound dies with "stack overflow",
	// which no recover() catches
	if t.Choose(250) == 7 {
		debug.SetMaxStack(64 << 20)
		n := []int{2000, 30000, 250000}[t.Choose(3)]
		switch t.Choose(4) {
		case 3:
			// nothing nested in anything: one if with as many else-if branches as fit
			br := dc.l + "else if 1" + dc.r + "x"
			src = dc.l + "if 1" + dc.r + "0" + strings.Repeat(br, n/len(br)) + dc.l + "end" + dc.r
		case 0:
			src = dc.l + strings.Repeat("!", n) + "x" + dc.r
		case 1:
			src = dc.l + strings.Repeat("(", n) + "1" + strings.Repeat(")", n) + dc.r
		default:
			open, end := dc.l+"if 1"+dc.r, dc.l+"end"+dc.r
			m := n / len(open)
			src = strings.Repeat(open, m) + "x" + strings.Repeat(end, m)
		}
		mutKind, mustReject = "deep-nesting", false
		env.Stat("probe:nesting_as_deep_as_the_size_cap_allows", 1)
	}
	if len(src) > 1<<18 {
		src = src[:1<<18]
		mustReject = false // the inserted mistake may have been cut off
	}
	if len(src) > 4096 {
		env.Stat("probe:source_longer_than_4KiB", 1)
	}
	if len(src) > 65536 {
		env.Stat("probe:source_longer_than_64KiB", 1)
	}
	files[victim] = src
	if strings.Contains(mutKind, "-cycle:two") {
		kw := strings.SplitN(mutKind, "-", 2)[0]
		files["/zcycle.jet"] = dc.l + kw + ` "` + shortName(t, victim) + `"` + dc.r
		names = append(names, "/zcycle.jet")
	}

	// one run in 150: a diamond-shaped import graph - two templates per layer, each importing both
	// templates of the next layer, 24 to 40 layers (at most 82 small templates). The number of ways to
	// a leaf doubles with every layer; a Set that loads a template once per way never finishes
	diamond := ""
	if t.Choose(150) == 7 {
		layers := t.Range(24, 40)
		kw := []string{"import", "import", "extends"}[t.Choose(3)]
		for i := 0; i < layers; i++ {
			for _, ab := range []string{"a", "b"} {
				body := dc.l + kw + fmt.Sprintf(` "/zd%sa%d.jet"`, "", i+1) + dc.r
				if kw == "import" {
					body += dc.l + kw + fmt.Sprintf(` "/zdb%d.jet"`, i+1) + dc.r
				} else {
					body += dc.l + fmt.Sprintf(`import "/zdb%d.jet"`, i+1) + dc.r
				}
				files[fmt.Sprintf("/zd%s%d.jet", ab, i)] = body
			}
		}
		files[fmt.Sprintf("/zda%d.jet", layers)] = "leaf a"
		files[fmt.Sprintf("/zdb%d.jet", layers)] = "leaf b"
		diamond = dc.l + `import "/zda0.jet"` + dc.r + "hello"
		env.Stat("probe:diamond_shaped_import_graph", 1)
	}

	// ---- loader with a fault plan for referenced files
	mem := jet.NewInMemLoader()
	for _, p := range names {
		mem.Set(p, files[p])
	}
	for _, p := range sim.SortedKeys(files) {
		if strings.HasPrefix(p, "/zd") {
			mem.Set(p, files[p]) // the diamond's templates are reached through imports only
		}
	}
	ld := loadersim.NewSimLoader(mem)
	if t.Choose(4) == 3 {
		ld.DataEOF = true // readers deliver their last bytes together with io.EOF
	}
	ld.Garbage = "[garbage " + dc.l + " if " + dc.r + " " + dc.l + "end" + dc.r + " " + dc.l
	nFaults := t.Choose(3)
	for i := 0; i < nFaults; i++ {
		ld.Arm(names[t.Choose(len(names))], 1+t.Choose(6), t.Choose(12))
	}
	sopts := dc.options()
	devMode := t.Choose(4) == 3
	if devMode {
		sopts = append(sopts, jet.InDevelopmentMode())
	}
	if diamond != "" && t.Choose(2) == 1 {
		// a user-supplied cache that keeps nothing (legal: a cache may forget): what one lookup loads is
		// still loaded once
		sopts = append(sopts, jet.WithCache(forgetfulCache{}))
		env.Stat("probe:diamond_import_graph_with_a_cache_that_keeps_nothing", 1)
	}
	set := jet.NewSet(ld, sopts...)

	// ---- calls
	var calls []call
	for _, p := range names {
		calls = append(calls, call{"GetTemplate", p, ""})
	}
	calls = append(calls, call{"Parse", victim, src})
	if diamond != "" {
		// Parse never caches what it loads; GetTemplate does (unless in development mode)
		calls = append(calls, call{"Parse", "/zdmain.jet", diamond}, call{"GetTemplate", "/zda0.jet", ""})
	}
	if t.Choose(4) == 3 {
		// the same source under a name that contains a '%' (names are data, not format strings)
		calls = append(calls, call{"Parse", "/pct-50%off.jet", src})
		env.Stat("probe:template_name_with_percent_sign", 1)
	}
	// the victim first half of the time (so its failure is seen before it is cached anywhere)
	if t.Choose(2) == 1 {
		calls[0], calls[len(calls)-1] = calls[len(calls)-1], calls[0]
	}
	lines := func(name string) int {
		if s, ok := files[name]; ok {
			return strings.Count(s, "\n") + 1
		}
		return -1
	}
	nErr, nOK := 0, 0
	for _, c := range calls {
		var tm *jet.Template
		var err error
		var pc *sim.Caught
		faultsBefore := totalFired(ld)
		panicsBefore := ld.Fired[loadersim.FaultPanic]
		leak := bubble(env.T, func() {
			pc = sim.Guard(func() {
				if c.kind == "Parse" {
					tm, err = set.Parse(c.name, c.src)
				} else {
					tm, err = set.GetTemplate(c.name)
				}
			})
		})
		faulted := totalFired(ld) > faultsBefore
		if pc == nil && err == nil && ld.Fired[loadersim.FaultPanic] > panicsBefore {
			// the loader panicked while this call was loading what the template refers to: the call ends
			// with that panic or with an error - a template put together without one of its references
			// is not a usable one
			env.Violate("result-shape", "success-although-the-loader-panicked", "%s(%q) [delimiters %s, dev=%v] returned a template and no error although the loader panicked during the call\nloader: %v", c.kind, c.name, dc.name, devMode, ld.Trace)
		}
		if pc != nil && ld.Fired[loadersim.FaultPanic] > panicsBefore {
			// the loader itself panicked and its panic came out of the call: not the parser's doing.
			// What must still hold: no goroutine is left behind.
			pc, err = nil, fmt.Errorf("the loader's panic came out of the call")
			env.Stat("probe:loader_panic_came_out_of_the_call", 1)
		}
		if debugTrace {
			fmt.Printf("%s %s -> err=%v\n   loader: %v\n", c.kind, c.name, err, ld.Trace)
			ld.Trace = nil
		}
		where := fmt.Sprintf("%s(%q) [delimiters %s, mutation %s of %s, dev=%v]\nsource of %s: %s", c.kind, c.name, dc.name, mutKind, victim, devMode, victim, sim.Q(src))
		env.Event("%s %s -> err=%v panic=%v leak=%q", c.kind, c.name, err != nil, pc != nil, leak)
		if pc != nil {
			env.Violate("no-panic", "panic-escaped:"+pc.InnermostJetFunc(), "%s: a panic escaped: %v", where, sim.Clip(pc.String(), 300))
		}
		if leak != "" {
			after := "after success"
			if err != nil || pc != nil {
				after = "after error"
			}
			if faulted {
				after += " (loader fault in a referenced template)"
			}
			if strings.Contains(leak, "deadlock") {
				env.Violate("no-goroutine-left", "leak:"+after, "%s: a goroutine was still blocked after the call returned (%s)", where, leak)
			} else {
				panic("parsesim bubble: " + leak)
			}
		}
		if pc == nil {
			switch {
			case err == nil && (tm == nil || tm.Root == nil):
				env.Violate("result-shape", "nil-nil", "%s returned no error and no usable template", where)
			case err != nil:
				nErr++
				for _, m := range rePos.FindAllStringSubmatch(err.Error(), -1) {
					ln, _ := strconv.Atoi(m[2])
					n := lines(m[1])
					if c.kind == "Parse" && m[1] == loadersim.Normalize("/"+c.name) {
						n = strings.Count(c.src, "\n") + 1
					}
					if n < 0 {
						env.Violate("error-position", "bad-position:unknown-file", "%s: the error names %q, which is not a template of this set: %v", where, m[1], err)
					} else if ln < 1 || ln > n {
						env.Violate("error-position", "bad-position:line-out-of-range", "%s: the error names line %d of %s, which has %d line(s): %v", where, ln, m[1], n, err)
					}
				}
			default:
				nOK++
				// "usable": the tree the parser built can at least be printed; a node whose required
				// child is missing makes String panic on a nil pointer
				if pp := sim.Guard(func() { _ = tm.Root.String() }); pp != nil {
					env.Violate("result-shape", "unprintable-tree:"+pp.InnermostJetFunc(), "%s returned a template whose tree cannot be printed (Root.String panics): %v", where, sim.Clip(pp.String(), 300))
				}
				env.Stat("counters:returned_trees_printed", 1)
			}
		}
		// GetTemplate is judged only while the loader has served the victim's real bytes (an
		// unparsable-content fault replaces them for one load)
		if mustReject && c.name == victim && err == nil && pc == nil && !(c.kind == "GetTemplate" && (faulted || ld.Fired[loadersim.FaultGarbage] > 0)) {
			env.Violate("structural-mistake-reported", "accepted:"+mutKind, "%s: the source contains a structural mistake (%s) but was accepted", where, mutKind)
		}
	}
	for k, n := range ld.Fired {
		env.Stat("fault:loader_"+loadersim.FaultNames[k], int64(n))
	}
	env.Stat("counters:calls", int64(len(calls)))
	env.Stat("counters:calls_returning_error", int64(nErr))
	env.Stat("counters:calls_returning_template", int64(nOK))
	env.Stat("probe:delimiters_"+dc.name, 1)
	env.Stat("probe:mutation_"+strings.SplitN(mutKind, "+", 2)[0], 1)
	env.Res.Nontrivial = true
	env.Res.Sig = fmt.Sprintf("%016x", sim.HashString(dc.name+"\x00"+victim+"\x00"+src+"\x00"+fmt.Sprint(len(names), nFaults)))
	env.Res.Sample = fmt.Sprintf("delimiters=%s files=%v victim=%s mutation=%s must-reject=%v\nsource: %s", dc.name, names, victim, mutKind, mustReject, sim.Q(src))
}

// forgetfulCache is a jet.Cache that keeps nothing.
type forgetfulCache struct{}

func (forgetfulCache) Get(string) *jet.Template  { return nil }
func (forgetfulCache) Put(string, *jet.Template) {}

func totalFired(l *loadersim.SimLoader) int {
	n := 0
	for _, v := range l.Fired {
		n += v
	}
	return n
}

// bubble runs f inside a synctest bubble; a goroutine left blocked when f has
// returned makes synctest report a deadlock, returned as text.
func bubble(t *testing.T, f func()) (failure string) {
	defer func() {
		if r := recover(); r != nil {
			failure = fmt.Sprint(r)
		}
	}()
	synctest.Test(t, func(*testing.T) { f() })
	return ""
}

// redelim rewrites the generator's default delimiters into the configured ones.
func redelim(src string, d delims) string {
	if d.name == "default" {
		return src
	}
	// two passes through placeholders so replacements cannot collide
	src = strings.NewReplacer("{{", "\x01", "}}", "\x02", "{*", "\x03", "*}", "\x04").Replace(src)
	return strings.NewReplacer("\x01", d.l, "\x02", d.r, "\x03", d.cl, "\x04", d.cr).Replace(src)
}

// mutate applies one random mutation.
func mutate(t *sim.Tape, s string, d delims) (string, string) {
	if len(s) == 0 {
		return fragments[t.Choose(len(fragments))], "splice"
	}
	switch t.Choose(7) {
	case 0: // truncate at a byte offset
		return s[:t.Choose(len(s)+1)], "truncate"
	case 1: // delete a chunk
		i := t.Choose(len(s))
		j := i + 1 + t.Choose(minInt(8, len(s)-i))
		return s[:i] + s[j:], "delete"
	case 2: // duplicate a chunk
		i := t.Choose(len(s))
		j := i + 1 + t.Choose(minInt(12, len(s)-i))
		return s[:j] + s[i:j] + s[j:], "duplicate"
	case 3: // swap two delimiter-separated tokens
		parts := strings.SplitAfter(s, d.r)
		if len(parts) > 2 {
			i, j := t.Choose(len(parts)), t.Choose(len(parts))
			parts[i], parts[j] = parts[j], parts[i]
			return strings.Join(parts, ""), "swap"
		}
		fallthrough
	case 4, 5: // splice a lexer-relevant fragment, preferably inside an action
		f := fragments[t.Choose(len(fragments))]
		// usually in the configured delimiters; sometimes verbatim (default markers inside a
		// custom-delimiter template are legal input too)
		if d.name != "default" && t.Choose(3) > 0 {
			f = redelim(f, d)
		}
		at := t.Choose(len(s) + 1)
		if idx := allIndex(s, d.l); len(idx) > 0 && t.Choose(3) > 0 {
			at = idx[t.Choose(len(idx))] + len(d.l) + t.Choose(6)
			if at > len(s) {
				at = len(s)
			}
		}
		return s[:at] + f + s[at:], "splice"
	default: // replace a byte
		i := t.Choose(len(s))
		return s[:i] + replacements[t.Choose(len(replacements))] + s[i+1:], "replace"
	}
}

func allIndex(s, sub string) []int {
	var out []int
	for from := 0; ; {
		i := strings.Index(s[from:], sub)
		if i < 0 {
			return out
		}
		out = append(out, from+i)
		from += i + len(sub)
	}
}

func minInt(a, b int) int {
	if a < b {
		return a
	}
	return b
}

// shortName spells a template's name without its ".jet" half of the time.
func shortName(t *sim.Tape, name string) string {
	if t.Choose(2) == 1 {
		return strings.TrimSuffix(name, ".jet")
	}
	return name
}

// groundTruth builds a source that is structurally wrong for certain.
func groundTruth(t *sim.Tape, s string, d delims, victim string, names []string) (string, string, bool) {
	switch t.Choose(11) {
	case 9: // a template that extends or imports itself: an error, not an endless recursion
		kw := []string{"extends", "import"}[t.Choose(2)]
		// (half of the time by a name that needs an extension appended to become the file's name)
		return d.l + kw + ` "` + shortName(t, victim) + `"` + d.r + s, kw + "-cycle:self", true
	case 10: // ... or through a second template
		kw := []string{"extends", "import"}[t.Choose(2)]
		return d.l + kw + ` "` + shortName(t, "/zcycle.jet") + `"` + d.r + s, kw + "-cycle:two", true
	case 8: // comment whose "closing" marker overlaps the opening one: {*} is {* followed by }, never closed
		k := 0
		for n := 1; n <= len(d.cl) && n <= len(d.cr); n++ {
			if strings.HasSuffix(d.cl, d.cr[:n]) {
				k = n
			}
		}
		if k == 0 {
			return s + d.cl + " never closed ", "unterminated-comment", true
		}
		tail := d.cr[k:] + " not a comment end " + d.l + " 1 " + d.r
		return s + d.cl + tail, "unterminated-comment-overlapping-markers", !strings.Contains(tail, d.cr)
	case 0: // action cut before its terminator (nothing after it can close it)
		idx := allIndex(s, d.l)
		if len(idx) == 0 {
			return s + d.l + " x", "unterminated-action", true
		}
		last := idx[len(idx)-1]
		end := strings.Index(s[last:], d.r)
		if end < 0 {
			return s, "unterminated-action", false
		}
		cut := last + len(d.l) + t.Choose(end-len(d.l)+1)
		return s[:cut], "unterminated-action", true
	case 1: // comment never closed
		return s + d.cl + " never closed ", "unterminated-comment", true
	case 2: // comment never closed, followed by an action
		return s + d.cl + " never closed " + d.l + " 1 " + d.r, "unterminated-comment-before-action", !strings.Contains(" never closed "+d.l+" 1 "+d.r, d.cr)
	case 3: // string literal never closed
		return s + d.l + ` "abc ` + d.r + "\n", "unterminated-string", true
	case 4: // last end removed
		acts := allIndex(s, d.l)
		for k := len(acts) - 1; k >= 0; k-- {
			i := acts[k]
			e := strings.Index(s[i:], d.r)
			if e < 0 {
				continue
			}
			body := strings.TrimSpace(strings.Trim(strings.TrimSpace(s[i+len(d.l):i+e]), "-"))
			if body == "end" {
				return s[:i] + s[i+e+len(d.r):], "missing-end", true
			}
		}
		return s, "missing-end", false
	case 5: // surplus end
		return s + d.l + "end" + d.r, "surplus-end", true
	case 6: // extends/import after other content
		kw := []string{"extends", "import"}[t.Choose(2)]
		return "content first" + d.l + kw + ` "` + names[0] + `"` + d.r + s, kw + "-after-content", true
	default: // parenthesis never closed
		return s + d.l + " (1 " + d.r, "unclosed-paren", true
	}
}
