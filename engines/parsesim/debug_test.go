package parsesim

import (
	"encoding/json"
	"fmt"
	"os"
	"testing"

	"verif/sim"
)

// DBG_REPLAY=<replay file> go test -tags verif -run TestDebugReplay ./engines/parsesim
func TestDebugReplay(t *testing.T) {
	f := os.Getenv("DBG_REPLAY")
	if f == "" {
		t.Skip()
	}
	b, _ := os.ReadFile(f)
	var rep struct{ Tape []uint64 }
	json.Unmarshal(b, &rep)
	env := &sim.Env{T: t, Tape: sim.NewReplayTape(rep.Tape), Prop: "C02", Tier: "quick", WantLog: true, Res: &sim.Result{}}
	debugTrace = true
	RunC02(env)
	fmt.Println(env.Res.Sample)
	for _, v := range env.Res.Violations {
		fmt.Println(v.Oracle, v.Key)
	}
}
