// Package loadersim: history simulations over the Loader / Cache /
// http.FileSystem seams (C15, C16, C19).
package loadersim

import (
	"errors"
	"fmt"
	"io"
	"os"
	"strings"

	jet "github.com/CloudyKit/jet/v6"
)

// Call is one recorded crossing of a seam.
type Call struct {
	Seam   string // "Exists", "Open", "Cache.Get", "Cache.Put"
	Path   string
	Result string // "true"/"false", "ok"/"err", "hit"/"miss", ""
}

func (c Call) String() string { return c.Seam + "(" + c.Path + ")=" + c.Result }

// Fault kinds on the loader seam.
const (
	FaultNone          = iota
	FaultTransientMiss // Exists answers false for an existing file (once)
	FaultOpenError     // Exists true, Open fails
	FaultReadError     // reader fails after k bytes
	FaultCloseError    // reader's Close fails
	FaultGarbage       // unparsable bytes swapped in for one load
	FaultPanic         // the loader panics (in Open, or in Read after k bytes) with an error or a string
	FaultEditWhileOpen // not a failure: the file is stored again between Open and the first Read
)

var FaultNames = []string{"none", "transient_miss", "open_error", "read_error_after_k_bytes", "close_error", "unparsable_content", "loader_panics", "edited_between_open_and_read"}

type armedFault struct {
	path  string
	kind  int
	k     int
	fired bool
}

// SimLoader wraps a real jet.Loader (the InMemLoader or the OS loader): it
// records every call, and injects faults from a plan.
type SimLoader struct {
	Inner  jet.Loader
	Trace  []Call
	Faults []*armedFault
	Fired  map[int]int
	Off    bool // faults stopped
	// Garbage is what an unparsable-content fault serves (must be invalid under the Set's delimiters)
	Garbage string
	OnCall  func(c Call)
	// DataEOF: every reader hands out its last bytes together with io.EOF (legal, and what many
	// network readers do)
	DataEOF bool
	// PanicInExists: loader_panics faults fire in Exists already (otherwise in Open / Read)
	PanicInExists bool
	// OnEditWhileOpen stores the file again (called between the inner Open and the first Read)
	OnEditWhileOpen func(path string)
}

func NewSimLoader(inner jet.Loader) *SimLoader {
	return &SimLoader{Inner: inner, Fired: map[int]int{}}
}

func (l *SimLoader) Arm(path string, kind, k int) {
	l.Faults = append(l.Faults, &armedFault{path: path, kind: kind, k: k})
}

func (l *SimLoader) take(path string, kinds ...int) *armedFault {
	if l.Off {
		return nil
	}
	for _, f := range l.Faults {
		if f.fired || f.path != path {
			continue
		}
		for _, k := range kinds {
			if f.kind == k {
				f.fired = true
				l.Fired[k]++
				return f
			}
		}
	}
	return nil
}

func (l *SimLoader) rec(c Call) {
	l.Trace = append(l.Trace, c)
	if l.OnCall != nil {
		l.OnCall(c)
	}
}

func (l *SimLoader) Exists(p string) bool {
	if l.PanicInExists {
		if f := l.take(p, FaultPanic); f != nil {
			l.rec(Call{"Exists", p, "panic"})
			panic(fmt.Errorf("INJ-exists: the loader's Exists panicked"))
		}
	}
	r := l.Inner.Exists(p)
	if r {
		if f := l.take(p, FaultTransientMiss); f != nil {
			r = false
		}
	}
	l.rec(Call{"Exists", p, fmt.Sprint(r)})
	return r
}

var ErrInjectedOpen = errors.New("INJ-open: simulated loader failure")

// errInjectedOpenWrapsRuntimeError: a loader that recovered from a bug of its own and reports it as an
// ordinary error value whose chain contains a runtime.Error
var errInjectedOpenWrapsRuntimeError = func() (err error) {
	defer func() {
		if r, ok := recover().(error); ok {
			err = fmt.Errorf("INJ-open: the loader recovered from its own bug: %w", r)
		}
	}()
	var m map[string]int
	m["x"] = 1
	return nil
}()

// InjectedPanicValue is what a loader with a bug of its own may panic with: not an error, not a string.
type InjectedPanicValue struct{ Code int }

var ErrInjectedRead = errors.New("INJ-read: simulated read failure")
var ErrInjectedClose = errors.New("INJ-close: simulated close failure")

type faultReader struct {
	r        io.ReadCloser
	failAt   int // fail once this many bytes were delivered (-1: never)
	n        int
	closeErr bool
	withData bool // the failing Read also delivers bytes (n > 0 together with the error)
	once     bool // the error is reported once; the next Read says io.EOF (a reader need not repeat its error)
	failed   bool
	panics   int // instead of returning the error, Read panics (1: with the error, 2: with a string)
}

// dataEOFReader delivers its last bytes together with io.EOF, as a reader may (testing/iotest.DataErrReader).
type dataEOFReader struct {
	r    io.ReadCloser
	buf  []byte
	done bool
}

func (d *dataEOFReader) Read(p []byte) (int, error) {
	if d.buf == nil {
		b, err := io.ReadAll(d.r)
		if err != nil {
			return 0, err
		}
		d.buf = b
		if d.buf == nil {
			d.buf = []byte{}
		}
	}
	if d.done {
		return 0, io.EOF
	}
	n := copy(p, d.buf)
	d.buf = d.buf[n:]
	if len(d.buf) == 0 {
		d.done = true
		return n, io.EOF
	}
	return n, nil
}

func (d *dataEOFReader) Close() error { return d.r.Close() }

func (f *faultReader) fail(n int) (int, error) {
	if f.failed && f.once {
		return 0, io.EOF
	}
	f.failed = true
	switch f.panics {
	case 1:
		panic(ErrInjectedRead)
	case 2:
		panic("INJ-read: the loader's reader panicked with a string")
	}
	return n, ErrInjectedRead
}

func (f *faultReader) Read(p []byte) (int, error) {
	if f.failAt >= 0 {
		if f.n >= f.failAt {
			return f.fail(0)
		}
		if len(p) > f.failAt-f.n {
			p = p[:f.failAt-f.n]
		}
		if len(p) == 0 {
			return f.fail(0)
		}
	}
	n, err := f.r.Read(p)
	f.n += n
	if f.failAt >= 0 && (err == io.EOF || (f.withData && n > 0 && f.n >= f.failAt)) {
		// the bytes up to the failure offset and the error in one call; or the file is shorter than the
		// planned offset (it was edited after the fault was armed) and the read fails at its end
		// instead - an armed read fault always fires
		return f.fail(n)
	}
	return n, err
}

func (f *faultReader) Close() error {
	err := f.r.Close()
	if f.closeErr {
		return ErrInjectedClose
	}
	return err
}

func (l *SimLoader) Open(p string) (io.ReadCloser, error) {
	if f := l.take(p, FaultOpenError); f != nil {
		l.rec(Call{"Open", p, "err"})
		if f.k%4 == 3 && errInjectedOpenWrapsRuntimeError != nil {
			return nil, errInjectedOpenWrapsRuntimeError
		}
		switch f.k % 4 {
		case 2:
			// "the file is not there" although Exists has just said it is (removed in between, or a loader
			// whose two methods disagree): still this candidate's failure, not a reason to look further
			return nil, &os.PathError{Op: "open", Path: "INJ-open:" + p, Err: os.ErrNotExist}
		case 1:
			return nil, fmt.Errorf("INJ-open: simulated loader failure: %w", io.EOF)
		}
		return nil, ErrInjectedOpen
	}
	if f := l.take(p, FaultPanic); f != nil && f.k%3 == 0 {
		l.rec(Call{"Open", p, "panic"})
		switch (f.k / 3) % 3 {
		case 0:
			panic(ErrInjectedOpen)
		case 1:
			panic("INJ-open: the loader panicked with a string")
		}
		// neither an error nor a string: a value of a type of the loader's own
		panic(InjectedPanicValue{Code: 7})
	} else if f != nil {
		rc, err := l.Inner.Open(p)
		if err != nil {
			l.rec(Call{"Open", p, "err"})
			return nil, err
		}
		l.rec(Call{"Open", p, "ok"})
		return &faultReader{r: rc, failAt: f.k, panics: 1 + f.k%2}, nil
	}
	rc, err := l.Inner.Open(p)
	if err != nil {
		l.rec(Call{"Open", p, "err"})
		return nil, err
	}
	l.rec(Call{"Open", p, "ok"})
	if f := l.take(p, FaultEditWhileOpen); f != nil && l.OnEditWhileOpen != nil {
		l.OnEditWhileOpen(p) // the reader handed out must still deliver one complete version
	}
	if f := l.take(p, FaultGarbage); f != nil {
		rc.Close()
		g := l.Garbage
		if g == "" {
			g = "[garbage {{ if }} {{end}} {{"
		}
		return io.NopCloser(strings.NewReader(g)), nil
	}
	if f := l.take(p, FaultReadError); f != nil {
		return &faultReader{r: rc, failAt: f.k, withData: f.k%2 == 1, once: f.k%4 == 1}, nil
	}
	if l.DataEOF {
		return &dataEOFReader{r: rc}, nil
	}
	if f := l.take(p, FaultCloseError); f != nil {
		return &faultReader{r: rc, failAt: -1, closeErr: true}, nil
	}
	return rc, nil
}

// SimCache is a recording jet.Cache (a plain map; it never lies).
type SimCache struct {
	M     map[string]*jet.Template
	Trace *[]Call
	Puts  int
	Gets  int
	// Evict: a bounded cache - on a Get that would hit, Evict() may say the entry has been dropped in
	// the meantime (a user-supplied Cache need not keep what it was given)
	Evict   func() bool
	Evicted int
}

func NewSimCache(trace *[]Call) *SimCache {
	return &SimCache{M: map[string]*jet.Template{}, Trace: trace}
}

func (c *SimCache) Get(p string) *jet.Template {
	c.Gets++
	t := c.M[p]
	if t != nil && c.Evict != nil && c.Evict() {
		delete(c.M, p)
		t = nil
		c.Evicted++
	}
	r := "miss"
	if t != nil {
		r = "hit"
	}
	*c.Trace = append(*c.Trace, Call{"Cache.Get", p, r})
	return t
}

func (c *SimCache) Put(p string, t *jet.Template) {
	c.Puts++
	*c.Trace = append(*c.Trace, Call{"Cache.Put", p, ""})
	c.M[p] = t
}

// Normalize is the harness's own path normaliser (segment stack; not
// path.Clean): the canonical absolute form of a slash-separated name.
func Normalize(p string) string {
	var st []string
	for _, seg := range strings.Split(p, "/") {
		switch seg {
		case "", ".":
		case "..":
			if len(st) > 0 {
				st = st[:len(st)-1]
			}
		default:
			st = append(st, seg)
		}
	}
	return "/" + strings.Join(st, "/")
}

// IsCanonical: absolute, no '.', '..' or empty segment, no trailing slash.
func IsCanonical(p string) bool {
	if !strings.HasPrefix(p, "/") {
		return false
	}
	if p == "/" {
		return true
	}
	for _, seg := range strings.Split(p[1:], "/") {
		if seg == "" || seg == "." || seg == ".." {
			return false
		}
	}
	// a backslash is an ordinary character of a segment on this platform (filepath.ToSlash is the
	// identity here), so it does not make a path unclean
	return true
}

// Dir is the directory part of a canonical path ("/" for top-level files).
func Dir(p string) string {
	i := strings.LastIndex(p, "/")
	if i <= 0 {
		return "/"
	}
	return p[:i]
}
