package loadersim

import (
	"fmt"
	"io"
	"sort"
	"strings"

	jet "github.com/CloudyKit/jet/v6"
	"github.com/CloudyKit/jet/v6/loaders/multi"

	"verif/sim"
	"verif/simrt"
)

// Concurrent variants of C15 and C19. Their statements are about single calls
// ("every path a Set hands to its Loader...", "whenever Exists(p) is true,
// Open(p) yields..."), and a Set is used by many goroutines at once: the
// clauses must hold for every call whatever other calls overlap it. 2-3
// simulated clients (seeded scheduler, one runs at a time, switches at every
// loader call and jet hook site) over static files; every answer is known in
// advance.

// ---- C15: the same spelling from different directories, at the same time

func runC15Concurrent(env *sim.Env) {
	t := env.Tape
	files := map[string]string{
		"/a/part.jet": "[A-part]", "/b/part.jet": "[B-part]", "/part.jet": "[ROOT-part]",
		"/a/base.jet": "<A-base:{{block m()}}{{end}}>", "/b/base.jet": "<B-base:{{block m()}}{{end}}>", "/base.jet": "<ROOT-base:{{block m()}}{{end}}>",
		"/a/lib.jet": "{{block lb()}}[A-lib]{{end}}", "/b/lib.jet": "{{block lb()}}[B-lib]{{end}}", "/lib.jet": "{{block lb()}}[ROOT-lib]{{end}}",
	}
	want := map[string]string{}
	for _, d := range []string{"/a", "/b", ""} {
		tag := map[string]string{"/a": "A", "/b": "B", "": "ROOT"}[d]
		files[d+"/inc.jet"] = `{{include "part.jet"}}`
		want[d+"/inc.jet"] = "[" + tag + "-part]"
		files[d+"/inc2.jet"] = `{{include "./part.jet"}}{{include "part.jet"}}`
		want[d+"/inc2.jet"] = "[" + tag + "-part][" + tag + "-part]"
		files[d+"/ext.jet"] = `{{extends "base.jet"}}{{block m()}}x{{end}}`
		want[d+"/ext.jet"] = "<" + tag + "-base:x>"
		files[d+"/imp.jet"] = `{{import "lib.jet"}}{{yield lb()}}`
		want[d+"/imp.jet"] = "[" + tag + "-lib]"
	}
	names := sim.SortedKeys(want)
	mem := jet.NewInMemLoader()
	for _, p := range sim.SortedKeys(files) {
		mem.Set(p, files[p])
	}
	nClients := t.Range(2, 3)
	dev := t.Choose(4) == 3
	sched := simrt.NewSched(t, nClients)
	pools := &simrt.Pools{Tape: t, Policy: simrt.PoolAdversarial} // a Runtime goes from one execution straight to the next, also across clients
	unhook := pools.Install()
	defer unhook()
	sched.Pools = pools
	seams := &concSeams{s: sched, inner: mem, m: map[string]*jet.Template{}}
	opts := []jet.Option{}
	if t.Choose(2) == 1 {
		opts = append(opts, jet.WithCache(concCache{seams}))
	}
	if dev {
		opts = append(opts, jet.InDevelopmentMode())
	}
	set := jet.NewSet(seams, opts...)
	type rec struct {
		client    int
		name      string
		call, ret int64
		out, err  string
	}
	plans := make([][]string, nClients)
	for c := range plans {
		n := t.Range(1, 5)
		for i := 0; i < n; i++ {
			plans[c] = append(plans[c], names[t.Choose(len(names))])
		}
	}
	recs := make([][]rec, nClients)
	jet.VerifHooks.Yield = sched.Yield
	defer func() { jet.VerifHooks.Yield = nil }()
	bodies := make([]func(*simrt.Client), nClients)
	for c := range bodies {
		c := c
		bodies[c] = func(cl *simrt.Client) {
			for _, name := range plans[c] {
				r := rec{client: c, name: name, call: sched.Seq()}
				pc := sim.Guard(func() {
					tm, err := set.GetTemplate(name)
					if err != nil {
						r.err = err.Error()
						return
					}
					var b strings.Builder
					if err := tm.Execute(&b, nil, nil); err != nil {
						r.err = err.Error()
					}
					r.out = b.String()
				})
				if pc != nil {
					r.err = "panic: " + sim.Clip(pc.String(), 300)
				}
				r.ret = sched.Seq()
				recs[c] = append(recs[c], r)
			}
		}
	}
	sched.Run(bodies)
	var all []rec
	for _, rs := range recs {
		all = append(all, rs...)
	}
	sort.Slice(all, func(i, j int) bool { return all[i].call < all[j].call })
	var hist []string
	for _, r := range all {
		hist = append(hist, fmt.Sprintf("c%d:%s@%d-%d", r.client, r.name, r.call, r.ret))
		env.Event("%d-%d c%d %s out=%q err=%q", r.call, r.ret, r.client, r.name, r.out, r.err)
	}
	h := strings.Join(hist, " ")
	if sched.Exceeded {
		env.Violate("concurrent", "step-bound", "the clients did not finish within %d scheduling steps", sched.MaxSteps)
	}
	for _, r := range all {
		if r.err != "" || r.out != want[r.name] {
			env.Violate("resolution", "concurrent:wrong-target", "client %d: %s rendered %s (error %q); its relative references resolve against its own directory: %s\nhistory: %s", r.client, r.name, sim.Q(r.out), r.err, sim.Q(want[r.name]), h)
		}
		// what this client asked the loader and the cache for while it was inside the call: canonical, and
		// inside the directory of the template it was executing (or the template itself)
		dir := Dir(r.name)
		for _, sc := range seams.calls {
			if sc.client != r.client || sc.seq < r.call || sc.seq > r.ret {
				continue
			}
			if !IsCanonical(sc.path) {
				env.Violate("seam-invariant", "concurrent:unclean", "client %d executing %s: %s received the non-canonical path %q\nhistory: %s", r.client, r.name, sc.seam, sc.path, h)
			} else if Dir(sc.path) != dir {
				env.Violate("seam-invariant", "concurrent:outside-allowed-set", "client %d executing %s: %s received %q, which no reference of that template resolves to\nhistory: %s", r.client, r.name, sc.seam, sc.path, h)
			}
		}
	}
	env.Stat("probe:concurrent_history_runs", 1)
	env.Stat("counters:concurrent_context_switches", int64(sched.Switches))
	env.Reach("concurrent_schedules", fmt.Sprintf("%016x", sched.SwitchHash))
	env.Res.Nontrivial = sched.Switches > 1 && len(all) > 1
	env.Res.Sig = fmt.Sprintf("conc:%016x", sched.SwitchHash^sim.HashString(h))
	env.Res.Sample = fmt.Sprintf("concurrent history, %d clients dev=%v, %d context switches: %s", nClients, dev, sched.Switches, h)
}

// ---- C19: overlapping lookups on one multi loader (and on the in-memory loaders below it)

type yieldingLoader struct {
	s     *simrt.Sched
	inner jet.Loader
}

func (l yieldingLoader) Exists(p string) bool {
	l.s.Yield("loader:Exists")
	return l.inner.Exists(p)
}

func (l yieldingLoader) Open(p string) (io.ReadCloser, error) {
	l.s.Yield("loader:Open")
	return l.inner.Open(p)
}

func runC19Concurrent(env *sim.Env) {
	t := env.Tape
	nL := t.Range(2, 3)
	paths := []string{"/a", "/b", "/a/b", "/c/d", "/e"}
	var mems []*jet.InMemLoader
	var loaders []jet.Loader
	nClients := t.Range(2, 3)
	sched := simrt.NewSched(t, nClients)
	model := map[string]string{} // path -> content of the first loader that has it
	for i := 0; i < nL; i++ {
		m := jet.NewInMemLoader()
		for _, p := range paths {
			if t.Choose(2) == 1 {
				c := fmt.Sprintf("L%d:%s", i, p)
				m.Set(p, c)
				if _, ok := model[p]; !ok {
					model[p] = c
				}
			}
		}
		mems = append(mems, m)
		loaders = append(loaders, yieldingLoader{sched, m})
	}
	var ld jet.Loader
	if t.Choose(3) == 2 && nL == 3 {
		ld = multi.NewLoader(multi.NewLoader(loaders[0], loaders[1]), loaders[2])
	} else {
		ld = multi.NewLoader(loaders...)
	}
	type rec struct {
		client    int
		path      string
		call, ret int64
		exists    bool
		content   string
		err       string
	}
	plans := make([][]string, nClients)
	for c := range plans {
		n := t.Range(1, 6)
		for i := 0; i < n; i++ {
			plans[c] = append(plans[c], paths[t.Choose(len(paths))])
		}
	}
	recs := make([][]rec, nClients)
	bodies := make([]func(*simrt.Client), nClients)
	for c := range bodies {
		c := c
		bodies[c] = func(cl *simrt.Client) {
			for _, p := range plans[c] {
				r := rec{client: c, path: p, call: sched.Seq()}
				pc := sim.Guard(func() {
					r.exists = ld.Exists(p)
					rc, err := ld.Open(p)
					if err != nil {
						r.err = err.Error()
						return
					}
					b, err := io.ReadAll(rc)
					rc.Close()
					if err != nil {
						r.err = err.Error()
					}
					r.content = string(b)
				})
				if pc != nil {
					r.err = "panic: " + sim.Clip(pc.String(), 300)
				}
				r.ret = sched.Seq()
				recs[c] = append(recs[c], r)
			}
		}
	}
	sched.Run(bodies)
	var all []rec
	for _, rs := range recs {
		all = append(all, rs...)
	}
	sort.Slice(all, func(i, j int) bool { return all[i].call < all[j].call })
	var hist []string
	for _, r := range all {
		hist = append(hist, fmt.Sprintf("c%d:%s@%d-%d", r.client, r.path, r.call, r.ret))
		env.Event("%d-%d c%d %s exists=%v content=%q err=%q", r.call, r.ret, r.client, r.path, r.exists, r.content, r.err)
	}
	h := strings.Join(hist, " ")
	if sched.Exceeded {
		env.Violate("contract", "concurrent:step-bound", "the clients did not finish within %d scheduling steps", sched.MaxSteps)
	}
	for _, r := range all {
		wantC, wantE := model[r.path]
		switch {
		case r.exists != wantE:
			env.Violate("contract", "multi:concurrent-exists", "client %d: multi.Exists(%q) = %v while another lookup overlapped; the (static) stack says %v\nhistory: %s", r.client, r.path, r.exists, wantE, h)
		case wantE && (r.err != "" || r.content != wantC):
			env.Violate("contract", "multi:concurrent-open", "client %d: multi.Open(%q) gave %q (error %q) while another lookup overlapped; the first loader that has the path holds %q\nhistory: %s", r.client, r.path, r.content, r.err, wantC, h)
		case !wantE && r.err == "":
			env.Violate("contract", "multi:concurrent-open", "client %d: multi.Open(%q) succeeded (%q) although no loader has the path\nhistory: %s", r.client, r.path, r.content, h)
		}
	}
	_ = mems
	env.Stat("probe:config_multi_concurrent_lookups", 1)
	env.Stat("counters:concurrent_context_switches", int64(sched.Switches))
	env.Reach("concurrent_schedules", fmt.Sprintf("%016x", sched.SwitchHash))
	env.Res.Nontrivial = sched.Switches > 1 && len(all) > 1
	env.Res.Sig = fmt.Sprintf("conc:%016x", sched.SwitchHash^sim.HashString(h))
	env.Res.Sample = fmt.Sprintf("concurrent lookups on a multi loader of %d in-memory loaders, %d clients, %d context switches: %s", nL, nClients, sched.Switches, h)
}
