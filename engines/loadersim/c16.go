package loadersim

import (
	"bytes"
	"fmt"
	"regexp"
	"strconv"
	"strings"

	jet "github.com/CloudyKit/jet/v6"

	"verif/sim"
)

// C16 — cache coherence: identical hits, failures never cached, dev mode
// reloads, Parse never caches, extensions in order (DESIGN.md §6 C16).

type fileModel struct {
	ver  int
	kind int // 0 plain, 1 includes ref, 2 extends ref, 3 imports ref, 4 includeIfExists(ref), 5 exec(ref): 1/4/5 load at run time
	ref  string
	pad  int // bytes of a trailing comment: files beyond 512 B / 4 KiB / 64 KiB (reads in several chunks)
}

func (f fileModel) content(path string) string {
	if f.pad > 0 {
		g := f
		g.pad = 0
		if f.pad%2 == 1 && f.kind != 2 {
			return "{*" + strings.Repeat("z", f.pad) + "*}" + g.content(path) // the comment in front
		}
		return g.content(path) + "{*" + strings.Repeat("z", f.pad) + "*}"
	}
	m := fmt.Sprintf("[%s#%d]", path, f.ver)
	switch f.kind {
	case 4:
		return m + fmt.Sprintf(`{{includeIfExists(%q)}}`, f.ref)
	case 5:
		return m + fmt.Sprintf(`{{exec(%q)}}`, f.ref)
	case 1:
		return m + fmt.Sprintf(`{{include %q}}`, f.ref)
	case 2:
		return fmt.Sprintf(`{{extends %q}}{{block m()}}%s{{end}}`, f.ref, m)
	case 3:
		return fmt.Sprintf(`{{import %q}}`, f.ref) + m
	}
	return m + "<{{block m()}}dflt{{end}}>"
}

type setModel struct {
	set        *jet.Set
	dev        bool
	simCache   *SimCache
	lossy      bool                     // the user-supplied cache forgets entries: repeat hits are not demanded
	execClean  map[*jet.Template]bool   // templates whose last Execute succeeded with every run-time lookup found
	succ       map[string]*jet.Template // explicit successful GetTemplate by request name
	failed     map[string]bool          // last explicit attempt failed
	mayCached  map[string]bool          // paths a legitimate Put may have stored
	parsedOnly map[string]bool          // paths loaded only during Parse
	gen        int
}

type c16 struct {
	editedWhileOpen map[string]bool // files stored again while a reader on them was open (the load may deliver the previous version)
	env             *sim.Env
	t               *sim.Tape
	exts            []string
	mem             *jet.InMemLoader
	loader          *SimLoader
	files           map[string]*fileModel // canonical path (with extension) -> model; nil entry = deleted
	vers            map[string]int        // version counter per path (never reused)
	past            map[string]*fileModel // path#version -> what that version looked like
	bases           []string
	sets            []*setModel
	ctrace          []Call
	hist            []string
	nChecks         int
}

var extLists = [][]string{
	{"", ".jet", ".html.jet", ".jet.html"}, // default
	{"", ".jet"},
	{".jet", ".html"},
	{".html", ".jet", ""},
	{".tpl"},
}

func (c *c16) resolve(name string) (string, bool) {
	for _, e := range c.exts {
		if f := c.files[name+e]; f != nil {
			return name + e, true
		}
	}
	return "", false
}

// loadable: the model's closure of name can be served by the loader.
func (c *c16) loadable(name string, depth int) bool {
	if depth > 6 {
		return false
	}
	p, ok := c.resolve(name)
	if !ok {
		return false
	}
	f := c.files[p]
	if f.kind == 0 {
		return true
	}
	ref := f.ref
	if !strings.HasPrefix(ref, "/") {
		ref = Normalize(Dir(p) + "/" + ref)
	}
	if f.kind == 1 || f.kind == 4 || f.kind == 5 {
		return true // loaded at run time, not at GetTemplate
	}
	return c.loadable(ref, depth+1)
}

// alwaysRendersOwnMarker: no version of the file(s) a name can resolve to was ever an extends-child
// (whose marker sits in a block that is rendered only if the chain's root yields it - and the cached
// version of any link of that chain may be an older one).
func (c *c16) alwaysRendersOwnMarker(name string) bool {
	for key, f := range c.past {
		p := key[:strings.LastIndex(key, "#")]
		if f.kind == 2 && (p == name || strings.HasPrefix(p, name+".")) {
			return false
		}
	}
	return true
}

func (c *c16) newSet(i int) {
	sm := &setModel{execClean: map[*jet.Template]bool{}, succ: map[string]*jet.Template{}, failed: map[string]bool{}, mayCached: map[string]bool{}, parsedOnly: map[string]bool{}}
	if i < len(c.sets) && c.sets[i] != nil {
		sm.dev = c.sets[i].dev
		sm.gen = c.sets[i].gen + 1
		if c.sets[i].simCache != nil {
			sm.simCache = NewSimCache(&c.ctrace)
			sm.lossy = c.sets[i].lossy
		}
	} else {
		sm.dev = c.t.Choose(3) == 2
		if c.t.Choose(2) == 1 {
			sm.simCache = NewSimCache(&c.ctrace)
			sm.lossy = c.t.Choose(4) == 3
		}
	}
	// a development-mode Set and an ordinary one over ONE user-supplied cache: the development-mode Set
	// neither reads nor fills it, whatever the other one put there
	if i == 1 && sm.gen == 0 && len(c.sets) == 1 && c.sets[0] != nil && c.sets[0].gen == 0 && c.sets[0].simCache != nil && sm.simCache != nil && !sm.lossy && !c.sets[0].lossy && c.sets[0].dev != sm.dev && c.t.Choose(2) == 1 {
		sm.simCache = c.sets[0].simCache
		c.env.Stat("probe:development_and_ordinary_set_share_one_cache", 1)
	}
	if sm.lossy && sm.simCache != nil {
		sc := sm.simCache
		sc.Evict = func() bool { return c.t.Choose(3) == 0 }
		c.env.Stat("probe:user_supplied_cache_that_forgets_entries", 1)
	}
	opts := []jet.Option{jet.WithTemplateNameExtensions(c.exts), jet.WithSafeWriter(nil)}
	if sm.dev {
		opts = append(opts, jet.InDevelopmentMode())
	}
	if sm.simCache != nil {
		opts = append(opts, jet.WithCache(sm.simCache))
	}
	sm.set = jet.NewSet(c.loader, opts...)
	if i < len(c.sets) {
		c.sets[i] = sm
	} else {
		c.sets = append(c.sets, sm)
	}
}

func (c *c16) setFile(path string, kind int, ref string) {
	c.vers[path]++
	f := &fileModel{ver: c.vers[path], kind: kind, ref: ref}
	f.pad = []int{0, 0, 0, 0, 0, 0, 0, 0, 701, 700, 5001, 5000, 70000}[c.t.Choose(13)]
	if f.pad > 0 {
		c.env.Stat("probe:file_longer_than_512_bytes", 1)
	}
	c.files[path] = f
	if c.past == nil {
		c.past = map[string]*fileModel{}
	}
	c.past[fmt.Sprintf("%s#%d", path, f.ver)] = f
	c.mem.Set(path, f.content(path))
}

func (c *c16) mode(sm *setModel) string {
	if sm.dev {
		return "dev"
	}
	return "nodev"
}

// checkExtOrder: clause (e) on the loader calls of one operation.
func (c *c16) checkExtOrder(sm *setModel, calls []Call, op string) {
	i := 0
	base := ""
	for k := 0; k < len(calls); k++ {
		cl := calls[k]
		switch cl.Seam {
		case "Exists":
			if i == 0 {
				if !strings.HasSuffix(cl.Path, c.exts[0]) {
					c.env.Violate("extension-order", c.mode(sm)+":ext-order", "%s: lookup starts with Exists(%s), which does not end in the first configured extension %q (extensions %q)\ncalls: %v", op, cl.Path, c.exts[0], c.exts, calls)
					return
				}
				base = strings.TrimSuffix(cl.Path, c.exts[0])
			} else if cl.Path != base+c.exts[i] {
				// the scan of the previous name may have ended with a candidate found in the cache (no
				// loader call): then this is the first candidate of the next name
				if !strings.HasSuffix(cl.Path, c.exts[0]) || sm.dev {
					c.env.Violate("extension-order", c.mode(sm)+":ext-order", "%s: candidate %d of %q is %s, expected %s (extensions %q)\ncalls: %v", op, i, base, cl.Path, base+c.exts[i], c.exts, calls)
					return
				}
				i, base = 0, strings.TrimSuffix(cl.Path, c.exts[0])
			}
			if cl.Result == "true" {
				if k+1 >= len(calls) || calls[k+1].Seam != "Open" || calls[k+1].Path != cl.Path {
					c.env.Violate("extension-order", c.mode(sm)+":ext-order", "%s: Exists(%s) was true but the next loader call is not Open of the same path\ncalls: %v", op, cl.Path, calls)
					return
				}
				k++
				i = 0
			} else {
				i++
				if i == len(c.exts) {
					i = 0
				}
			}
		case "Open":
			c.env.Violate("extension-order", c.mode(sm)+":ext-order", "%s: Open(%s) without a preceding Exists(%s)=true\ncalls: %v", op, cl.Path, cl.Path, calls)
			return
		}
	}
}

var reMarker = regexp.MustCompile(`\[(/[^#\]]*)#(\d+)\]`)

// checkVersions: every version marker rendered must be attributable; in dev
// mode it must be the version current at the call.
func (c *c16) checkVersions(sm *setModel, out string, op string) {
	for _, m := range reMarker.FindAllStringSubmatch(out, -1) {
		p := m[1]
		v, _ := strconv.Atoi(m[2])
		cur := c.files[p]
		if v < 1 || v > c.vers[p] {
			c.env.Violate("rendered-version", c.mode(sm)+":unattributable-version", "%s rendered %s, a version nobody wrote (latest written: %d)", op, m[0], c.vers[p])
			continue
		}
		if sm.dev {
			if (cur == nil || cur.ver != v) && !(c.editedWhileOpen[p] && cur != nil && v == cur.ver-1) {
				curv := "deleted"
				if cur != nil {
					curv = fmt.Sprint(cur.ver)
				}
				c.env.Violate("rendered-version", "dev:stale-in-dev", "%s in development mode rendered %s but the loader currently holds version %s of %s", op, m[0], curv, p)
			}
		}
	}
}

func (c *c16) names() []string {
	// request names: bases, and bases with an explicit extension
	var out []string
	for _, b := range c.bases {
		out = append(out, b)
	}
	// names that already end in a configured extension (the file may live under name + another one)
	for _, b := range c.bases[:2] {
		for _, e := range c.exts {
			if e != "" {
				out = append(out, b+e)
			}
		}
	}
	return out
}

func (c *c16) opGet(sm *setModel, name string, exec bool) {
	t0, c0 := len(c.loader.Trace), len(c.ctrace)
	hardBefore := c.loader.Fired[FaultOpenError] + c.loader.Fired[FaultReadError] + c.loader.Fired[FaultGarbage] + c.loader.Fired[FaultPanic]
	panicsBefore := c.loader.Fired[FaultPanic]
	allFiredBefore := sumFired(c.loader)
	var t *jet.Template
	var err error
	pc := sim.Guard(func() { t, err = sm.set.GetTemplate(name) })
	hardFired := c.loader.Fired[FaultOpenError] + c.loader.Fired[FaultReadError] + c.loader.Fired[FaultGarbage] + c.loader.Fired[FaultPanic] - hardBefore
	if pc != nil && c.loader.Fired[FaultPanic] > panicsBefore {
		// the loader itself panicked during this call: the panic may come out of GetTemplate as it is
		// (a failed call like any other - nothing may be remembered, the next call tries again)
		pc, err, t = nil, fmt.Errorf("the loader's panic came out of GetTemplate"), nil
		c.env.Stat("probe:loader_panic_came_out_of_the_call", 1)
	}
	calls := append([]Call(nil), c.loader.Trace[t0:]...)
	ccalls := append([]Call(nil), c.ctrace[c0:]...)
	op := fmt.Sprintf("GetTemplate(%q) on set#%d.%d (%s, exts %q)", name, indexOf(c.sets, sm), sm.gen, c.mode(sm), c.exts)
	res := "ok"
	if err != nil {
		res = "err"
	}
	c.hist = append(c.hist, fmt.Sprintf("Get(%s)=%s/%dcalls", name, res, len(calls)))
	c.env.Event("%s -> %s calls=%v cache=%v", op, res, calls, ccalls)
	c.nChecks++
	if pc != nil {
		c.env.Violate("no-panic", c.mode(sm)+":panic", "%s panicked: %v", op, pc)
		return
	}
	c.checkExtOrder(sm, calls, op)
	nPut := 0
	for _, cc := range ccalls {
		if cc.Seam == "Cache.Put" {
			nPut++
		}
	}
	faultsActive := !c.loader.Off
	if sm.dev {
		if nPut > 0 {
			c.env.Violate("dev-mode", "dev:put-in-dev", "%s stored %d entr(ies) in the cache in development mode: %v", op, nPut, ccalls)
		}
		if len(calls) == 0 {
			c.env.Violate("dev-mode", "dev:no-reload", "%s did not consult the loader in development mode (result err=%v)", op, err)
		}
	} else {
		prev := sm.succ[name]
		switch {
		case prev != nil && sm.lossy:
			// a cache that forgets: the lookup may go to the loader again and return another template
		case prev != nil:
			c.env.Stat("probe:repeat_lookup_after_success", 1)
			if err != nil || t != prev {
				c.env.Violate("identical-hit", "nodev:hit-new-pointer", "%s: an earlier GetTemplate of the same name succeeded, but this one returned (%p, err=%v) instead of the identical template %p", op, t, err, prev)
			}
			if len(calls) > 0 {
				c.env.Violate("identical-hit", "nodev:hit-touched-loader", "%s: an earlier GetTemplate of the same name succeeded, but this one touched the loader: %v", op, calls)
			}
		case len(calls) == 0:
			// answered without the loader although no explicit success is on record
			legit := false
			for _, e := range append([]string{""}, c.exts...) {
				if sm.mayCached[name+e] {
					legit = true
				}
			}
			if !legit {
				key := "nodev:unexplained-hit"
				if sm.failed[name] {
					key = "nodev:failure-cached"
				}
				for _, e := range append([]string{""}, c.exts...) {
					if sm.parsedOnly[name+e] {
						key = "nodev:put-in-parse"
					}
				}
				c.env.Violate("never-cached", key, "%s was answered without consulting the loader (err=%v), but nothing that may be cached was ever loaded under that name (last explicit attempt failed: %v)\nhistory: %s", op, err, sm.failed[name], strings.Join(c.hist, " "))
			}
		}
		if sm.failed[name] {
			c.env.Stat("probe:retry_after_failed_lookup", 1)
		}
	}
	// progress once faults stopped
	if err != nil && !faultsActive && c.loadable(name, 0) {
		c.env.Violate("retry", c.mode(sm)+":no-progress", "%s failed (%v) although faults have stopped and the loader can serve it; loader calls: %v\nhistory: %s", op, err, calls, strings.Join(c.hist, " "))
	}
	if err == nil && t == nil {
		c.env.Violate("no-panic", c.mode(sm)+":nil-nil", "%s returned (nil, nil)", op)
		return
	}
	// a load that hit an Open error, a Read error or unparsable bytes is a failed load: GetTemplate
	// must report it (everything GetTemplate loads is needed to build the template)
	if err == nil && hardFired > 0 {
		c.env.Violate("failed-load-reported", c.mode(sm)+":fault-swallowed", "%s succeeded although %d injected load failure(s) (open error / read error / unparsable content) hit the files it loaded: %v\nhistory: %s", op, hardFired, calls, strings.Join(c.hist, " "))
	}
	if err != nil {
		sm.failed[name] = true
		delete(sm.succ, name)
		// dependencies that were loaded on the way may be cached legitimately
		for _, cl := range calls {
			if cl.Seam == "Open" && cl.Result == "ok" {
				if rp, ok := c.resolve(name); !ok || rp != cl.Path {
					c.markCached(sm, cl.Path)
				}
			}
		}
		return
	}
	// "the first existing file wins": the template returned for a name is never the one of a LATER
	// candidate while an earlier candidate exists in the loader (however the later one got into the
	// cache - e.g. because it was asked for under its full name before). A remembered answer for this
	// very name is exempt (prev != nil: identical-hit applies), and so are operations hit by a fault.
	// Judged when it is known where the answer came from: loaded just now, or (traced cache) found in
	// the cache under a key other than the requested name. An entry under the requested name itself is
	// a remembered answer for that name (an extends or include may have asked for it before).
	provenanceKnown := false
	for _, cl := range calls {
		if cl.Seam == "Open" && cl.Result == "ok" && t != nil && cl.Path == t.Name {
			provenanceKnown = true
		}
	}
	if !provenanceKnown && sm.simCache != nil {
		for _, cc := range ccalls {
			if cc.Seam == "Cache.Get" && cc.Result == "hit" {
				provenanceKnown = cc.Path != name
				break
			}
		}
	}
	if provenanceKnown && sm.succ[name] == nil && sumFired(c.loader) == allFiredBefore && !sm.lossy {
		isCandidate := false
		for i, e := range c.exts {
			if t.Name != name+e {
				continue
			}
			isCandidate = true
			for _, e2 := range c.exts[:i] {
				if c.files[name+e2] != nil {
					c.env.Violate("extension-order", c.mode(sm)+":later-extension-wins", "%s returned the template of %s although the earlier candidate %s exists in the loader (loader calls of this lookup: %v)\nhistory: %s", op, t.Name, name+e2, calls, strings.Join(c.hist, " "))
				}
			}
			break
		}
		if !isCandidate {
			// e.g. the entry stored under the requested name "/a.jet" (for the file /a.jet.jet) answering
			// a request for "/a", one of whose candidates is spelled "/a.jet"
			c.env.Violate("extension-order", c.mode(sm)+":answer-is-no-candidate", "%s returned the template of %s, which is none of the candidates of that name (extensions %q; loader calls of this lookup: %v)\nhistory: %s", op, t.Name, c.exts, calls, strings.Join(c.hist, " "))
		}
	}
	sm.failed[name] = false
	if !sm.dev {
		sm.succ[name] = t
		sm.mayCached[name] = true
		for _, cl := range calls {
			if cl.Seam == "Open" && cl.Result == "ok" {
				c.markCached(sm, cl.Path)
			}
		}
	}
	if exec {
		c.opExec(sm, t, name)
	}
}

// parseTimeTarget picks what an extends or import refers to: mostly /base, sometimes a template further
// "downhill" (/a -> /b -> /d/e -> /base), which gives chains of three and four templates loaded by one
// GetTemplate.
func parseTimeTarget(t *sim.Tape, b string) string {
	switch b {
	case "/a":
		return []string{"/base", "/base", "/b", "/d/e"}[t.Choose(4)]
	case "/b":
		return []string{"/base", "/base", "/d/e"}[t.Choose(3)]
	}
	return "/base"
}

// includeTarget picks a run-time include target "downhill" (/a -> /b -> /d/e),
// so include chains cannot be cyclic.
func includeTarget(t *sim.Tape, b string) (kind int, ref string) {
	k := []int{1, 1, 4, 5}[t.Choose(4)] // include, includeIfExists, exec (the latter two resolve against the root)
	switch b {
	case "/a":
		if k != 1 {
			return k, []string{"/b", "/d/e"}[t.Choose(2)]
		}
		return 1, []string{"/b", "/d/e", "d/e", "./b"}[t.Choose(4)]
	case "/b":
		if k != 1 {
			return k, "/d/e"
		}
		return 1, []string{"/d/e", "d/e"}[t.Choose(2)]
	}
	return 0, ""
}

func (c *c16) markCached(sm *setModel, p string) {
	sm.mayCached[p] = true
	delete(sm.parsedOnly, p)
	for _, e := range c.exts {
		if e != "" && strings.HasSuffix(p, e) {
			b := strings.TrimSuffix(p, e)
			sm.mayCached[b] = true
			delete(sm.parsedOnly, b)
		}
	}
}

func (c *c16) opExec(sm *setModel, t *jet.Template, name string) {
	t0 := len(c.loader.Trace)
	firedBefore := len(c.loader.Fired) + sumFired(c.loader)
	var buf bytes.Buffer
	var err error
	panicsBefore := c.loader.Fired[FaultPanic]
	pc := sim.Guard(func() { err = t.Execute(&buf, nil, nil) })
	if pc != nil && c.loader.Fired[FaultPanic] > panicsBefore {
		pc, err = nil, fmt.Errorf("the loader's panic came out of Execute")
	}
	faultDuringExec := len(c.loader.Fired)+sumFired(c.loader) != firedBefore
	calls := append([]Call(nil), c.loader.Trace[t0:]...)
	op := fmt.Sprintf("Execute(%q) on set#%d.%d (%s)", name, indexOf(c.sets, sm), sm.gen, c.mode(sm))
	c.env.Event("%s -> %q err=%v calls=%v", op, buf.String(), err, calls)
	c.hist = append(c.hist, fmt.Sprintf("Exec(%s)/%dcalls", name, len(calls)))
	if pc != nil {
		c.env.Violate("no-panic", c.mode(sm)+":panic", "%s panicked: %v", op, pc)
		return
	}
	c.checkExtOrder(sm, calls, op)
	// what a template of this world renders is version markers, the block's default text and the angle
	// brackets around it - nothing else (a comment's bytes, for one, are never rendered)
	if err == nil && !faultDuringExec {
		rest := reMarker.ReplaceAllString(buf.String(), "")
		for _, known := range []string{"dflt", "<", ">"} {
			rest = strings.ReplaceAll(rest, known, "")
		}
		if rest != "" {
			c.env.Violate("rendered-version", c.mode(sm)+":rendered-bytes-of-no-file", "%s rendered %q: apart from version markers it contains %q, which no version of any file renders\nhistory: %s", op, sim.Clip(buf.String(), 300), sim.Clip(rest, 120), strings.Join(c.hist, " "))
		}
	}
	// every version of every file renders its own version marker (an extending template through its
	// chain's root): a successful Execute that rendered none executed something no file ever contained
	if err == nil && !faultDuringExec && reMarker.FindString(buf.String()) == "" {
		c.env.Violate("rendered-version", c.mode(sm)+":rendered-no-file-content", "%s succeeded and rendered %q, which contains no version marker: no version of any file renders that\nhistory: %s", op, buf.String(), strings.Join(c.hist, " "))
	}
	// outside development mode, what an Execute loaded at run time (include, includeIfExists, exec)
	// is remembered like any successful lookup: executing the same template again touches no loader
	if !sm.dev {
		if sm.execClean[t] && len(calls) > 0 && err == nil && !sm.lossy {
			c.env.Violate("identical-hit", "nodev:exec-hit-touched-loader", "%s: the previous Execute of this very template succeeded and found every template it looks up at run time, yet this one touched the loader again: %v\nhistory: %s", op, calls, strings.Join(c.hist, " "))
		}
		allFound := err == nil && !faultDuringExec
		for i, cl := range calls {
			if cl.Seam == "Exists" && cl.Result == "false" {
				// a candidate miss is fine as long as a later candidate of the same lookup was opened
				found := false
				for _, c2 := range calls[i+1:] {
					if c2.Seam == "Open" {
						found = c2.Result == "ok"
						break
					}
				}
				if !found {
					allFound = false
				}
			}
			if cl.Seam == "Open" && cl.Result != "ok" {
				allFound = false
			}
		}
		sm.execClean[t] = allFound
		c.env.Stat("probe:repeat_execute_of_fully_cached_template", int64(boolInt(len(calls) == 0 && err == nil)))
	}
	// a run-time reference whose target the loader can serve must be rendered: a lookup that failed
	// earlier (the file did not exist yet) is not remembered. The executed template is identified by
	// its own version marker (it may be an older, cached version of the file).
	if err == nil && !faultDuringExec {
		if m := reMarker.FindStringSubmatch(buf.String()); m != nil && strings.HasPrefix(buf.String(), m[0]) {
			if top := c.past[m[1]+"#"+m[2]]; top != nil && (top.kind == 1 || top.kind == 4) {
				ref := top.ref
				if !strings.HasPrefix(ref, "/") {
					ref = Normalize(Dir(m[1]) + "/" + ref)
				}
				if c.loadable(ref, 0) && c.alwaysRendersOwnMarker(ref) && !strings.Contains(buf.String()[len(m[0]):], "["+ref) {
					c.env.Violate("retry", c.mode(sm)+":runtime-lookup-not-retried", "%s: the template refers to %s at run time (%s), the loader can serve it, but it was not rendered: %q\nhistory: %s", op, ref, []string{"", "include", "", "", "includeIfExists"}[top.kind], buf.String(), strings.Join(c.hist, " "))
				}
			}
		}
	}
	if sm.dev && err == nil {
		// the top file was fetched by the GetTemplate just before; what is judged here is what
		// Execute itself loads (run-time includes): they must be current
		c.checkVersionsRuntime(sm, buf.String(), calls, op)
	} else {
		c.checkVersions(&setModel{}, buf.String(), op)
	}
	if !sm.dev {
		for _, cl := range calls {
			if cl.Seam == "Open" && cl.Result == "ok" {
				c.markCached(sm, cl.Path)
			}
		}
	}
}

func (c *c16) checkVersionsRuntime(sm *setModel, out string, calls []Call, op string) {
	opened := map[string]bool{}
	for _, cl := range calls {
		if cl.Seam == "Open" && cl.Result == "ok" {
			opened[cl.Path] = true
		}
	}
	for _, m := range reMarker.FindAllStringSubmatch(out, -1) {
		p := m[1]
		v, _ := strconv.Atoi(m[2])
		if v < 1 || v > c.vers[p] {
			c.env.Violate("rendered-version", "dev:unattributable-version", "%s rendered %s, a version nobody wrote", op, m[0])
			continue
		}
		cur := c.files[p]
		if (cur == nil || cur.ver != v) && !(c.editedWhileOpen[p] && cur != nil && v == cur.ver-1) {
			curv := "deleted"
			if cur != nil {
				curv = fmt.Sprint(cur.ver)
			}
			c.env.Violate("rendered-version", "dev:stale-in-dev", "%s in development mode rendered %s but the loader holds version %s (the template was fetched immediately before, with no edit in between)", op, m[0], curv)
		}
	}
}

func (c *c16) opParse(sm *setModel, name string) {
	// source referring to other templates through extends/import
	ref := c.bases[c.t.Choose(len(c.bases))]
	var src string
	switch c.t.Choose(3) {
	case 0:
		src = "[parsed]"
	case 1:
		src = fmt.Sprintf(`{{extends %q}}{{block m()}}[parsed]{{end}}`, ref)
	case 2:
		src = fmt.Sprintf(`{{import %q}}[parsed]`, ref)
	}
	t0, c0 := len(c.loader.Trace), len(c.ctrace)
	var err error
	panicsBefore := c.loader.Fired[FaultPanic]
	pc := sim.Guard(func() { _, err = sm.set.Parse(name, src) })
	if pc != nil && c.loader.Fired[FaultPanic] > panicsBefore {
		pc, err = nil, fmt.Errorf("the loader's panic came out of Parse")
	}
	calls := append([]Call(nil), c.loader.Trace[t0:]...)
	ccalls := append([]Call(nil), c.ctrace[c0:]...)
	op := fmt.Sprintf("Parse(%q, %q) on set#%d.%d (%s)", name, src, indexOf(c.sets, sm), sm.gen, c.mode(sm))
	c.env.Event("%s err=%v calls=%v cache=%v", op, err, calls, ccalls)
	c.hist = append(c.hist, fmt.Sprintf("Parse(%s)/%dcalls", name, len(calls)))
	c.nChecks++
	if pc != nil {
		c.env.Violate("no-panic", c.mode(sm)+":panic", "%s panicked: %v", op, pc)
		return
	}
	c.checkExtOrder(sm, calls, op)
	for _, cc := range ccalls {
		if cc.Seam == "Cache.Put" {
			c.env.Violate("parse-never-caches", c.mode(sm)+":put-in-parse", "%s stored %s in the cache: %v", op, cc.Path, ccalls)
		}
	}
	c.env.Stat("probe:parse_pulled_in_templates", int64(boolInt(len(calls) > 0)))
	// what Parse loaded must not be found in the cache later, unless a GetTemplate loads it too
	nm := Normalize("/" + name)
	if !sm.mayCached[nm] {
		sm.parsedOnly[nm] = true
	}
	for _, cl := range calls {
		if cl.Seam == "Open" && cl.Result == "ok" && !sm.mayCached[cl.Path] {
			sm.parsedOnly[cl.Path] = true
			for _, e := range c.exts {
				if e != "" && strings.HasSuffix(cl.Path, e) && !sm.mayCached[strings.TrimSuffix(cl.Path, e)] {
					sm.parsedOnly[strings.TrimSuffix(cl.Path, e)] = true
				}
			}
		}
	}
}

func sumFired(l *SimLoader) int {
	n := 0
	for _, v := range l.Fired {
		n += v
	}
	return n
}

func boolInt(b bool) int {
	if b {
		return 1
	}
	return 0
}

func indexOf(sets []*setModel, sm *setModel) int {
	for i, s := range sets {
		if s == sm {
			return i
		}
	}
	return -1
}

func RunC16(env *sim.Env) {
	t := env.Tape
	if t.Choose(8) == 7 {
		// one run in eight is a concurrent history (c16conc.go)
		runC16Concurrent(env)
		return
	}
	c := &c16{env: env, t: t, files: map[string]*fileModel{}, vers: map[string]int{}, editedWhileOpen: map[string]bool{}, past: map[string]*fileModel{}}
	c.exts = extLists[t.Choose(len(extLists))]
	c.mem = jet.NewInMemLoader()
	c.loader = NewSimLoader(c.mem)
	c.loader.OnEditWhileOpen = func(p string) {
		f := c.files[p]
		if f == nil {
			return
		}
		// the same kind of file, the next version, without padding (shorter or of the same length: what a
		// loader that reuses its buffer would overwrite in place)
		c.vers[p]++
		nf := &fileModel{ver: c.vers[p], kind: f.kind, ref: f.ref}
		c.files[p] = nf
		c.past[fmt.Sprintf("%s#%d", p, nf.ver)] = nf
		c.mem.Set(p, nf.content(p))
		c.editedWhileOpen[p] = true
		c.hist = append(c.hist, fmt.Sprintf("Set(%s#%d)-while-open", p, nf.ver))
		c.env.Stat("probe:file_stored_again_between_open_and_read", 1)
	}
	if t.Choose(4) == 3 {
		c.loader.DataEOF = true // every reader delivers its last bytes together with io.EOF
		env.Stat("probe:readers_deliver_last_bytes_together_with_EOF", 1)
	}
	c.bases = []string{"/a", "/b", "/base", "/d/e"}
	// initial files
	nonEmpty := []string{}
	for _, e := range c.exts {
		if e != "" {
			nonEmpty = append(nonEmpty, e)
		}
	}
	pickExt := func() string {
		if len(nonEmpty) == 0 {
			return ""
		}
		return nonEmpty[t.Choose(len(nonEmpty))]
	}
	c.setFile("/base"+pickExt(), 0, "")
	for _, b := range []string{"/a", "/b", "/d/e"} {
		if t.Choose(5) == 4 {
			continue // missing at first
		}
		kind := t.Choose(4)
		ref := parseTimeTarget(t, b)
		if kind == 1 {
			kind, ref = includeTarget(t, b)
		}
		c.setFile(b+pickExt(), kind, ref)
		if len(nonEmpty) > 1 && t.Choose(4) == 3 {
			c.setFile(b+nonEmpty[(t.Choose(len(nonEmpty)))], 0, "") // a second candidate extension
		}
	}
	c.newSet(0)
	if t.Choose(3) == 2 {
		c.newSet(1)
	}
	nOps := t.Range(4, 30)
	stopAt := t.Range(0, nOps)
	nFaults := 0
	for i := 0; i < nOps; i++ {
		if i == stopAt && !c.loader.Off {
			c.loader.Off = true
			c.hist = append(c.hist, "FaultsStop")
		}
		sm := c.sets[t.Choose(len(c.sets))]
		names := c.names()
		switch t.Weighted(6, 4, 2, 3, 1, 1, 2) {
		case 0:
			c.opGet(sm, names[t.Choose(len(names))], false)
		case 1:
			c.opGet(sm, names[t.Choose(len(names))], true)
		case 2:
			c.opParse(sm, []string{"/p", "/a", "b", "/d/../p2"}[t.Choose(4)])
		case 3: // edit
			b := []string{"/a", "/b", "/d/e", "/base"}[t.Choose(4)]
			p := b + pickExt()
			kind := t.Choose(4)
			if b == "/base" {
				kind = 0
			}
			ref := parseTimeTarget(t, b)
			if kind == 1 {
				kind, ref = includeTarget(t, b)
			}
			if len(nonEmpty) > 0 && t.Choose(6) == 5 {
				p += nonEmpty[t.Choose(len(nonEmpty))] // e.g. /a.html.jet: found by requesting /a.html
			}
			c.setFile(p, kind, ref)
			c.hist = append(c.hist, fmt.Sprintf("Set(%s#%d)", p, c.vers[p]))
			c.env.Event("edit %s kind=%d ref=%s ver=%d", p, kind, ref, c.vers[p])
		case 4: // delete
			b := []string{"/a", "/b", "/d/e"}[t.Choose(3)]
			if p, ok := c.resolve(b); ok {
				c.mem.Delete(p)
				c.files[p] = nil
				c.hist = append(c.hist, "Delete("+p+")")
				c.env.Event("delete %s", p)
			}
		case 5: // restart analogue
			i := indexOf(c.sets, sm)
			c.newSet(i)
			c.hist = append(c.hist, fmt.Sprintf("NewSet#%d", i))
			c.env.Event("new set %d", i)
			c.env.Stat("probe:new_set_over_same_loader", 1)
		case 6: // arm a fault
			if !c.loader.Off && nFaults < 3 {
				b := []string{"/a", "/b", "/d/e", "/base"}[t.Choose(4)]
				if p, ok := c.resolve(b); ok {
					kind := 1 + t.Choose(7)
					k := t.Choose(8)
					if f := c.files[p]; f != nil && f.pad > 0 && t.Choose(2) == 1 {
						k = t.Choose(len(f.content(p)) + 1) // the read fails somewhere inside a long file
					}
					c.loader.Arm(p, kind, k)
					nFaults++
					c.hist = append(c.hist, fmt.Sprintf("Arm(%s,%s)", p, FaultNames[kind]))
					c.env.Event("arm %s %s k=%d", p, FaultNames[kind], k)
				}
			}
		}
	}
	for k, n := range c.loader.Fired {
		env.Stat("fault:loader_"+FaultNames[k], int64(n))
	}
	env.Stat("counters:operations", int64(len(c.hist)))
	env.Stat("counters:loader_calls", int64(len(c.loader.Trace)))
	env.Stat("counters:cache_calls_recorded", int64(len(c.ctrace)))
	nDev := 0
	for _, sm := range c.sets {
		if sm.dev {
			nDev++
		}
	}
	env.Stat("probe:development_mode_sets", int64(nDev))
	env.Res.Nontrivial = c.nChecks >= 2
	env.Res.Sig = fmt.Sprintf("%016x", sim.HashString(strings.Join(c.hist, ";")+fmt.Sprint(c.exts)))
	env.Res.Sample = fmt.Sprintf("extensions=%q sets=%d history: %s", c.exts, len(c.sets), strings.Join(c.hist, " "))
}
