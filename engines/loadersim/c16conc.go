package loadersim

import (
	"fmt"
	"io"
	"sort"
	"strings"
	"sync"

	jet "github.com/CloudyKit/jet/v6"

	"verif/sim"
	"verif/simrt"
)

// C16, concurrent histories. The coherence clauses are stated per call ("a
// successful GetTemplate is remembered", "Set.Parse never adds anything to the
// cache"), so they must also hold when the calls of several clients overlap.
// 2-3 simulated clients (real goroutines, one runs at a time, the seeded
// scheduler decides who at every loader call, cache call and jet hook site)
// issue GetTemplate / Parse / Execute on one Set over a static file set.
// Every crossing of the loader and cache seams is attributed to the client and
// to the operation it happened in.

type seamCall struct {
	client int
	seq    int64
	seam   string // Exists, Open, Cache.Get, Cache.Put
	path   string
	hit    bool
	ptr    *jet.Template // Cache.Put: what was stored
}

type concSeams struct {
	s     *simrt.Sched
	inner jet.Loader
	mu    sync.Mutex
	m     map[string]*jet.Template
	calls []seamCall
}

//go:norace
func (c *concSeams) rec(seam, path string, hit bool) {
	c.calls = append(c.calls, seamCall{client: c.s.Cur(), seq: c.s.Seq(), seam: seam, path: path, hit: hit})
}

func (c *concSeams) Exists(p string) bool {
	c.s.Yield("loader:Exists")
	r := c.inner.Exists(p)
	c.rec("Exists", p, r)
	return r
}

func (c *concSeams) Open(p string) (io.ReadCloser, error) {
	c.s.Yield("loader:Open")
	c.rec("Open", p, true)
	return c.inner.Open(p)
}

type concCache struct{ *concSeams }

func (c concCache) Get(p string) *jet.Template {
	c.s.Yield("cache:Get")
	c.mu.Lock()
	defer c.mu.Unlock()
	t := c.m[p]
	c.rec("Cache.Get", p, t != nil)
	return t
}

func (c concCache) Put(p string, t *jet.Template) {
	c.s.Yield("cache:Put")
	c.mu.Lock()
	defer c.mu.Unlock()
	c.rec("Cache.Put", p, false)
	c.calls[len(c.calls)-1].ptr = t
	c.m[p] = t
}

type concOp struct {
	kind string // get, parse, exec
	name string
	src  string
}

type concRec struct {
	client    int
	op        concOp
	call, ret int64
	mid       int64 // GetTemplate / Parse returned
	ok        bool
	ptr       *jet.Template
	out       string
	err       string
}

func runC16Concurrent(env *sim.Env) {
	t := env.Tape
	files := map[string]string{
		"/x.jet":   "[x]",
		"/y.jet":   `[y]{{include "/x.jet"}}`,
		"/lib.jet": `{{block lb()}}[lb]{{end}}`,
		"/z.jet":   `{{import "/lib.jet"}}[z]{{yield lb()}}`,
		"/w.jet":   `{{extends "/y.jet"}}`,
		"/rec.jet": `[r{{.}}]{{if . > 0}}{{include "/rec.jet" dec(.)}}{{end}}`,
	}
	want := map[string]string{"/x.jet": "[x]", "/y.jet": "[y][x]", "/lib.jet": "[lb]", "/z.jet": "[z][lb]", "/w.jet": "[y][x]", "/rec.jet": "[r3][r2][r1][r0]"}
	parseSrcs := []string{
		`{{import "/lib.jet"}}[p]{{yield lb()}}`,
		`{{extends "/y.jet"}}`,
		`[p]{{include "/x.jet"}}`,
		`{{extends "/z.jet"}}`,
		`[p]`,
	}
	wantParse := []string{"[p][lb]", "[y][x]", "[p][x]", "[z][lb]", "[p]"}
	names := sim.SortedKeys(files)
	mem := jet.NewInMemLoader()
	for _, p := range names {
		mem.Set(p, files[p])
	}
	nClients := t.Range(2, 3)
	dev := t.Choose(6) == 5
	customCache := t.Choose(4) != 3
	sched := simrt.NewSched(t, nClients)
	pools := &simrt.Pools{Tape: t, Policy: simrt.PoolAdversarial} // a Runtime goes from one execution straight to the next, also across clients
	unhook := pools.Install()
	defer unhook()
	sched.Pools = pools
	seams := &concSeams{s: sched, inner: mem, m: map[string]*jet.Template{}}
	opts := []jet.Option{}
	if customCache {
		opts = append(opts, jet.WithCache(concCache{seams}))
	}
	if dev {
		opts = append(opts, jet.InDevelopmentMode())
	}
	set := jet.NewSet(seams, opts...)

	plans := make([][]concOp, nClients)
	for c := range plans {
		n := t.Range(2, 7)
		for i := 0; i < n; i++ {
			switch t.Weighted(5, 3, 2) {
			case 0:
				plans[c] = append(plans[c], concOp{kind: "get", name: names[t.Choose(len(names))]})
			case 1:
				k := t.Choose(len(parseSrcs))
				plans[c] = append(plans[c], concOp{kind: "parse", name: fmt.Sprintf("/parsed%d.jet", c), src: parseSrcs[k]})
			case 2:
				plans[c] = append(plans[c], concOp{kind: "exec", name: names[t.Choose(len(names))]})
			}
		}
	}
	recs := make([][]concRec, nClients)
	jet.VerifHooks.Yield = sched.Yield
	defer func() { jet.VerifHooks.Yield = nil }()
	bodies := make([]func(*simrt.Client), nClients)
	for c := range bodies {
		c := c
		bodies[c] = func(cl *simrt.Client) {
			for _, o := range plans[c] {
				r := concRec{client: c, op: o, call: sched.Seq()}
				pc := sim.Guard(func() {
					var tm *jet.Template
					var err error
					if o.kind == "parse" {
						tm, err = set.Parse(o.name, o.src)
					} else {
						tm, err = set.GetTemplate(o.name)
					}
					r.mid = sched.Seq()
					if err != nil {
						r.err = err.Error()
						return
					}
					r.ok, r.ptr = true, tm
					if o.kind != "get" {
						var b strings.Builder
						var data interface{}
						vm := jet.VarMap{}
						vm.Set("dec", func(n int) int { return n - 1 })
						if o.name == "/rec.jet" {
							data = 3
						}
						if err := tm.Execute(&b, vm, data); err != nil {
							r.err = err.Error()
							r.ok = false
						}
						r.out = b.String()
					}
				})
				if pc != nil {
					r.err, r.ok = "panic: "+sim.Clip(pc.String(), 300), false
				}
				r.ret = sched.Seq()
				if r.mid == 0 {
					r.mid = r.ret
				}
				recs[c] = append(recs[c], r)
			}
		}
	}
	sched.Run(bodies)

	// ---- oracles (after every client was joined)
	var all []concRec
	for _, rs := range recs {
		all = append(all, rs...)
	}
	sort.Slice(all, func(i, j int) bool { return all[i].call < all[j].call })
	var hist []string
	for _, r := range all {
		hist = append(hist, fmt.Sprintf("c%d:%s(%s)@%d-%d", r.client, r.op.kind, r.op.name, r.call, r.ret))
		env.Event("%d-%d c%d %s %s ok=%v out=%q err=%q", r.call, r.ret, r.client, r.op.kind, r.op.name, r.ok, r.out, r.err)
	}
	h := strings.Join(hist, " ")
	if sched.Exceeded {
		env.Violate("concurrent-history", "step-bound", "the clients did not finish within %d scheduling steps", sched.MaxSteps)
	}
	// seam crossings of the client inside the lookup part (GetTemplate / Parse) of the operation
	callsIn := func(r concRec, seam ...string) []seamCall {
		var out []seamCall
		for _, sc := range seams.calls {
			if sc.client != r.client || sc.seq < r.call || sc.seq > r.mid {
				continue
			}
			for _, s := range seam {
				if sc.seam == s {
					out = append(out, sc)
				}
			}
		}
		return out
	}
	for i, r := range all {
		// nothing fails in this world: static files, no faults
		if !r.ok {
			env.Violate("concurrent-history", "spurious-failure:"+r.op.kind, "client %d: %s(%s) failed although every file exists and no fault is injected: %s\nhistory: %s", r.client, r.op.kind, r.op.name, r.err, h)
			continue
		}
		switch r.op.kind {
		case "exec":
			if r.out != want[r.op.name] {
				env.Violate("concurrent-history", "output:exec", "client %d: Execute(%s) rendered %s, the files say %s\nhistory: %s", r.client, r.op.name, sim.Q(r.out), sim.Q(want[r.op.name]), h)
			}
		case "parse":
			w := ""
			for k, s := range parseSrcs {
				if s == r.op.src {
					w = wantParse[k]
				}
			}
			if r.out != w {
				env.Violate("concurrent-history", "output:parse", "client %d: Parse(%s)+Execute rendered %s, the text says %s\nhistory: %s", r.client, sim.Q(r.op.src), sim.Q(r.out), sim.Q(w), h)
			}
			// Set.Parse never adds anything to the cache - neither its result nor what it pulls in
			for _, sc := range callsIn(r, "Cache.Put") {
				env.Violate("concurrent-history", "put-in-parse", "client %d: Set.Parse(%s) put %s into the cache\nhistory: %s", r.client, sim.Q(r.op.src), sc.path, h)
			}
			continue
		}
		if dev && r.op.kind == "exec" && r.op.name == "/rec.jet" {
			// a template that includes itself three levels deep: four lookups, each of which reads the file
			n := 0
			for _, sc := range seams.calls {
				if sc.client == r.client && sc.seq >= r.call && sc.seq <= r.ret && sc.seam == "Open" && sc.path == "/rec.jet" {
					n++
				}
			}
			if n < 4 {
				env.Violate("concurrent-history", "dev-mode-no-reload", "client %d: executing /rec.jet (includes itself three levels deep) in development mode opened the file %d time(s); every one of its four lookups must read the loader\nhistory: %s", r.client, n, h)
			}
		}
		if dev {
			// development mode: every lookup re-reads the loader, nothing is ever put
			if len(callsIn(r, "Open")) == 0 {
				env.Violate("concurrent-history", "dev-mode-no-reload", "client %d: %s(%s) in development mode did not read the loader\nhistory: %s", r.client, r.op.kind, r.op.name, h)
			}
			if n := callsIn(r, "Cache.Put"); len(n) > 0 {
				env.Violate("concurrent-history", "dev-mode-put", "client %d: %s(%s) in development mode put %s into the cache\nhistory: %s", r.client, r.op.kind, r.op.name, n[0].path, h)
			}
			continue
		}
		// remembered: a GetTemplate of this name had returned successfully before this one was invoked
		remembered := false
		for _, q := range all[:i] {
			if q.op.kind == "parse" || q.op.name != r.op.name || !q.ok {
				continue
			}
			if q.ret < r.call {
				remembered = true
			}
		}
		if !remembered {
			continue
		}
		env.Stat("probe:concurrent_get_after_completed_get", 1)
		if touched := callsIn(r, "Exists", "Open"); len(touched) > 0 {
			env.Violate("concurrent-history", "hit-touched-loader", "client %d: GetTemplate(%s) was answered successfully before this call began, yet this call went to the loader (%s %s)\nhistory: %s", r.client, r.op.name, touched[0].seam, touched[0].path, h)
		}
		// identical: what comes back is a template the cache was given under this name (by whichever call;
		// a template can also get there as the import or extends of another one)
		if customCache {
			same := false
			for _, sc := range seams.calls {
				if sc.seam == "Cache.Put" && sc.path == r.op.name && sc.seq < r.mid && sc.ptr == r.ptr {
					same = true
				}
			}
			if !same {
				env.Violate("concurrent-history", "hit-new-pointer", "client %d: GetTemplate(%s) returned a template that was never put into the cache under that name, although an earlier call had completed\nhistory: %s", r.client, r.op.name, h)
			}
		}
	}
	for _, cl := range sched.Clients {
		for i, n := range cl.Sites {
			if n > 0 {
				env.Stat("yield_sites:"+simrt.SiteNames[i], n)
			}
		}
	}
	env.Stat("probe:concurrent_history_runs", 1)
	env.Stat("counters:concurrent_context_switches", int64(sched.Switches))
	env.Stat("counters:operations", int64(len(all)))
	env.Reach("concurrent_schedules", fmt.Sprintf("%016x", sched.SwitchHash))
	env.Res.Nontrivial = sched.Switches > 1 && len(all) > 1
	env.Res.Sig = fmt.Sprintf("conc:%016x", sched.SwitchHash^sim.HashString(h))
	env.Res.Sample = fmt.Sprintf("concurrent history, %d clients dev=%v customCache=%v, %d context switches: %s", nClients, dev, customCache, sched.Switches, h)
}
