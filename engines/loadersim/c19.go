package loadersim

import (
	"bytes"
	"embed"
	"errors"
	"fmt"
	"io"
	"io/fs"
	"net"
	"net/http"
	"os"
	"path/filepath"
	"sort"
	"strings"
	"syscall"
	"time"

	jet "github.com/CloudyKit/jet/v6"
	"github.com/CloudyKit/jet/v6/loaders/embedfs"
	"github.com/CloudyKit/jet/v6/loaders/httpfs"
	"github.com/CloudyKit/jet/v6/loaders/multi"

	"verif/sim"
)

// C19 — bundled loaders honour the Loader contract and their path semantics
// (DESIGN.md §6 C19): edit/query histories against a reference tree on the
// in-memory loader, the OS loader (real scratch directory), httpfs over a
// simulated http.FileSystem with fault injection, embedfs over a static tree
// (exhaustive sweep), and multi stacks of them.

//go:embed embedtree/root
var embedTree embed.FS

// ---- reference tree

type tree struct {
	files map[string]string // canonical path -> bytes
	dirs  map[string]bool   // canonical path -> is directory ("/" always)
}

func newTree() *tree { return &tree{files: map[string]string{}, dirs: map[string]bool{"/": true}} }

func (t *tree) hasFile(p string) bool { _, ok := t.files[p]; return ok }

func (t *tree) mkdirAll(p string) bool {
	if p == "/" {
		return true
	}
	if t.hasFile(p) {
		return false
	}
	if !t.mkdirAll(Dir(p)) {
		return false
	}
	t.dirs[p] = true
	return true
}

func (t *tree) write(p, b string) bool {
	if t.dirs[p] || !t.mkdirAll(Dir(p)) {
		return false
	}
	t.files[p] = b
	return true
}

func (t *tree) removeAll(p string) {
	for f := range t.files {
		if f == p || strings.HasPrefix(f, p+"/") {
			delete(t.files, f)
		}
	}
	for d := range t.dirs {
		if d != "/" && (d == p || strings.HasPrefix(d, p+"/")) {
			delete(t.dirs, d)
		}
	}
}

// ---- simulated http.FileSystem

type simFS struct {
	t              *tree
	tape           *sim.Tape
	faultIn        int // calls until a fault fires (-1: none)
	fired          map[string]int
	lastHit        bool // a fault fired during the current query
	opened, closed int  // file handles handed out / closed again
	// chunk: files hand out at most this many bytes per Read (0: as many as asked for) - a reader may
	// always return fewer bytes than requested
	chunk int
}

type simFile struct {
	closedOnce bool
	fsys       *simFS
	name       string
	isDir      bool
	r          *bytes.Reader
	size       int64
}

var errSimFS = errors.New("INJ-fs: simulated file system failure")

func (f *simFS) fault(kind string) bool {
	if f.faultIn < 0 {
		return false
	}
	if f.faultIn == 0 {
		f.faultIn = -1
		f.fired[kind]++
		f.lastHit = true
		return true
	}
	f.faultIn--
	return false
}

func (f *simFS) Open(name string) (http.File, error) {
	if f.fault("open_error") {
		return nil, errSimFS
	}
	p := Normalize(name)
	if b, ok := f.t.files[p]; ok && IsCanonical(name) {
		f.opened++
		return &simFile{fsys: f, name: p, r: bytes.NewReader([]byte(b)), size: int64(len(b))}, nil
	}
	if f.t.dirs[p] && IsCanonical(name) {
		f.opened++
		return &simFile{fsys: f, name: p, isDir: true, r: bytes.NewReader(nil)}, nil
	}
	return nil, &fs.PathError{Op: "open", Path: name, Err: fs.ErrNotExist}
}

func (s *simFile) Close() error {
	if !s.closedOnce {
		s.closedOnce = true
		s.fsys.closed++
	}
	return nil
}
func (s *simFile) Read(p []byte) (int, error) {
	if s.isDir {
		return 0, &fs.PathError{Op: "read", Path: s.name, Err: errors.New("is a directory")}
	}
	if s.fsys.fault("read_error") {
		return 0, errSimFS
	}
	if c := s.fsys.chunk; c > 0 && len(p) > c {
		p = p[:c]
	}
	return s.r.Read(p)
}
func (s *simFile) Seek(o int64, w int) (int64, error) { return s.r.Seek(o, w) }
func (s *simFile) Readdir(int) ([]fs.FileInfo, error) { return nil, nil }
func (s *simFile) Stat() (fs.FileInfo, error) {
	if s.fsys.fault("stat_error") {
		return nil, errSimFS
	}
	return simInfo{s}, nil
}

type simInfo struct{ f *simFile }

func (i simInfo) Name() string { return filepath.Base(i.f.name) }
func (i simInfo) Size() int64  { return i.f.size }
func (i simInfo) Mode() fs.FileMode {
	if i.f.isDir {
		return fs.ModeDir | 0o755
	}
	return 0o644
}
func (i simInfo) ModTime() time.Time { return time.Time{} }
func (i simInfo) IsDir() bool        { return i.f.isDir }
func (i simInfo) Sys() any           { return nil }

// ---- loaders under test

type lut struct {
	links  map[string]bool // symbolic links made in the scratch directory (never regular files for the loader)
	kind   string          // inmem, os, httpfs, embedfs
	loader jet.Loader
	model  *tree
	mem    *jet.InMemLoader
	root   string // os
	sfs    *simFS
}

var c19Segs = []string{"a", "b", "d", "t.jet", "u.jet", "v1..v2", "..x", "x..", ".h"}

func c19Path(t *sim.Tape) string {
	n := t.Range(1, 3)
	var segs []string
	for i := 0; i < n; i++ {
		segs = append(segs, c19Segs[t.Choose(len(c19Segs))])
	}
	return "/" + strings.Join(segs, "/")
}

// c19Spelling: an arbitrary spelling that normalises to p (in-memory loader only).
func c19Spelling(t *sim.Tape, p string) string {
	segs := strings.Split(strings.TrimPrefix(p, "/"), "/")
	var out []string
	for _, s := range segs {
		switch t.Choose(6) {
		case 1:
			out = append(out, ".")
		case 2:
			out = append(out, "zz", "..")
		case 3:
			out = append(out, "")
		}
		out = append(out, s)
	}
	s := strings.Join(out, "/")
	switch t.Choose(4) {
	case 0:
		s = "/" + s
	case 1:
		s = "./" + s
	case 2:
		s = "/../" + s
	}
	// the unclean part may also be only the tail
	switch t.Choose(7) {
	case 1:
		s += "/"
	case 2:
		s += "/."
	case 3:
		s += "/zz/.."
	case 4:
		s = "/" + strings.Join(segs, "/") + []string{"/", "/.", "/q/..", "//"}[t.Choose(4)]
	case 5:
		// relative spellings that climb above the root (clamped there)
		s = []string{"../", "../../", "a/../../", "./../"}[t.Choose(4)] + strings.Join(segs, "/")
	}
	return s
}

type c19 struct {
	luts            []*lut
	memberPanics    int // panics raised by a panicOnceLoader so far
	memberOpenFails int // transient Open failures injected by an openFailOnceLoader so far
	env             *sim.Env
	t               *sim.Tape
	nVer            int
	hist            []string
	nQ              int
	scrat           []string
	cwd             string // working directory to restore (set when a run changed it)
	lastEdit        string
	recentQ         []string
}

func (c *c19) newLut(kind string) *lut {
	l := &lut{kind: kind, model: newTree()}
	c.luts = append(c.luts, l)
	switch kind {
	case "inmem":
		l.mem = jet.NewInMemLoader()
		l.loader = l.mem
	case "os":
		dir, err := os.MkdirTemp("", "verif-c19-")
		if err != nil {
			panic(err)
		}
		c.scrat = append(c.scrat, dir)
		l.root = dir
		root := dir
		switch c.t.Choose(6) {
		case 3:
			root = dir + "/"
		case 4:
			root = filepath.Join(dir, "..", filepath.Base(dir)) + "/."
		case 5:
			// a root relative to the working directory
			if c.cwd == "" {
				c.cwd, _ = os.Getwd()
				if err := os.Chdir(dir); err == nil {
					root = []string{".", "./"}[c.t.Choose(2)] // ("" would be the file-system root: Join("", "/a") is "/a")
				}
			}
		}
		if root != dir {
			c.hist = append(c.hist, fmt.Sprintf("NewOSFileSystemLoader(%q)", strings.Replace(root, dir, "<dir>", 1)))
			c.env.Stat("probe:os_loader_root_spelled_unusually", 1)
		}
		l.loader = jet.NewOSFileSystemLoader(root)
	case "httpdir":
		// httpfs over a real http.Dir; one root spelling in three is "" (documented as "."), reached by
		// changing the working directory for the duration of the run
		dir, err := os.MkdirTemp("", "verif-c19h-")
		if err != nil {
			panic(err)
		}
		c.scrat = append(c.scrat, dir)
		l.root = dir
		root := dir
		if c.t.Choose(3) == 2 && c.cwd == "" {
			c.cwd, _ = os.Getwd()
			if err := os.Chdir(dir); err == nil {
				root = ""
				c.hist = append(c.hist, `http.Dir("")`)
			}
		}
		ld, err := httpfs.NewLoader(http.Dir(root))
		if err != nil {
			panic(err)
		}
		l.loader = ld
	case "httpfs":
		l.sfs = &simFS{t: l.model, tape: c.t, faultIn: -1, fired: map[string]int{}}
		if c.t.Choose(3) == 2 {
			l.sfs.chunk = []int{1, 7, 64, 500}[c.t.Choose(4)]
			c.env.Stat("probe:file_system_with_short_reads", 1)
		}
		ld, err := httpfs.NewLoader(l.sfs)
		if err != nil {
			panic(err)
		}
		l.loader = ld
	case "embedfs":
		// the root directory may be spelled in any way that cleans to the same place
		root := []string{"embedtree/root", "embedtree/root/", "./embedtree/root", "embedtree//root", "embedtree/x/../root", "embedtree/./root"}[c.t.Choose(6)]
		c.hist = append(c.hist, "embedfs.NewLoader("+root+")")
		l.loader = embedfs.NewLoader(root, embedTree)
		fs.WalkDir(embedTree, "embedtree/root", func(p string, d fs.DirEntry, err error) error {
			rel := "/" + strings.TrimPrefix(strings.TrimPrefix(p, "embedtree/root"), "/")
			rel = Normalize(rel)
			if d.IsDir() {
				l.model.dirs[rel] = true
			} else {
				b, _ := embedTree.ReadFile(p)
				l.model.files[rel] = string(b)
			}
			return nil
		})
	}
	return l
}

// edit applies one mutation to a loader and its model.
func (c *c19) edit(l *lut) {
	t := c.t
	p := c19Path(t)
	if len(c.recentQ) > 0 && t.Choose(3) == 0 {
		if q := c.recentQ[t.Choose(len(c.recentQ))]; q != "/" && q != "" {
			p = q // (never the root itself: edits are made below it)
		}
	}
	c.lastEdit = p
	c.nVer++
	content := fmt.Sprintf("%s:%s#%d", l.kind, p, c.nVer)
	switch t.Choose(10) {
	case 9:
		// a long file: read in several chunks through every wrapper
		content += ":" + strings.Repeat("p", []int{700, 5000, 70000}[t.Choose(3)])
		c.env.Stat("probe:file_longer_than_512_bytes", 1)
	case 8:
		// a file of length zero is a file: it exists, and opening it yields nothing
		content = ""
		c.env.Stat("probe:file_of_length_zero", 1)
	}
	switch l.kind {
	case "inmem":
		sp := c19Spelling(t, p)
		if t.Choose(4) == 3 {
			l.mem.Delete(sp)
			delete(l.model.files, p)
			c.hist = append(c.hist, fmt.Sprintf("inmem.Delete(%q)", sp))
		} else {
			l.mem.Set(sp, content)
			l.model.files[p] = content
			c.hist = append(c.hist, fmt.Sprintf("inmem.Set(%q)", sp))
		}
	case "os", "httpdir":
		fp := filepath.Join(l.root, filepath.FromSlash(p))
		choice := t.Choose(9)
		// a path that is, or lies below, a symbolic link made earlier is left alone (writing through a
		// link would create files the reference tree does not know)
		for q := p; q != "/" && q != "."; q = Dir(q) {
			if l.links[q] && !(q == p && (choice == 3 || choice == 4)) {
				return // (removing the link itself is fine)
			}
		}
		switch choice {
		case 8:
			// a named pipe without a writer: opening it blocks - a loader has to tell that it is no regular
			// file without opening it
			if l.model.hasFile(p) || l.model.dirs[p] || l.links[p] {
				return
			}
			parent := Dir(p)
			if parent != "/" && !l.model.mkdirAll(parent) && !l.model.dirs[parent] {
				return
			}
			os.MkdirAll(filepath.Dir(fp), 0o755)
			if err := syscall.Mkfifo(fp, 0o644); err == nil {
				if l.links == nil {
					l.links = map[string]bool{}
				}
				l.links[p] = true
				c.hist = append(c.hist, "mkfifo("+p+")")
				c.env.Stat("probe:named_pipe_below_the_root", 1)
			}
		case 7:
			// a symbolic link to a character device: it can be opened, and it is no regular file
			if l.model.hasFile(p) || l.model.dirs[p] || l.links[p] {
				return
			}
			parent := Dir(p)
			if parent != "/" && !l.model.mkdirAll(parent) && !l.model.dirs[parent] {
				return
			}
			os.MkdirAll(filepath.Dir(fp), 0o755)
			if err := os.Symlink("/dev/null", fp); err == nil {
				if l.links == nil {
					l.links = map[string]bool{}
				}
				l.links[p] = true
				c.hist = append(c.hist, "os.Symlink("+p+" -> /dev/null)")
				c.env.Stat("probe:link_to_a_character_device_below_the_root", 1)
			}
		case 6:
			// a unix socket: an entry that is neither a regular file nor a directory
			if l.model.hasFile(p) || l.model.dirs[p] || l.links[p] || len(fp) > 90 {
				return
			}
			parent := Dir(p)
			if parent != "/" && !l.model.mkdirAll(parent) && !l.model.dirs[parent] {
				return
			}
			os.MkdirAll(filepath.Dir(fp), 0o755)
			if ln, err := net.ListenUnix("unix", &net.UnixAddr{Name: fp, Net: "unix"}); err == nil {
				ln.SetUnlinkOnClose(false)
				ln.Close()
				if l.links == nil {
					l.links = map[string]bool{}
				}
				l.links[p] = true
				c.hist = append(c.hist, "unix-socket("+p+")")
				c.env.Stat("probe:unix_socket_below_the_root", 1)
			}
		case 5:
			// a symbolic link that is no regular file for the loader: it points at nothing
			if l.model.hasFile(p) || l.model.dirs[p] || l.links[p] {
				return
			}
			parent := Dir(p)
			if parent != "/" && !l.model.mkdirAll(parent) && !l.model.dirs[parent] {
				return
			}
			os.MkdirAll(filepath.Dir(fp), 0o755)
			target := "zz-nowhere" // dangling (a link to a directory would make everything below it reachable under a second name)
			if err := os.Symlink(target, fp); err == nil {
				if l.links == nil {
					l.links = map[string]bool{}
				}
				l.links[p] = true
				c.hist = append(c.hist, fmt.Sprintf("os.Symlink(%s -> %s)", p, target))
				c.env.Stat("probe:dangling_symbolic_link", 1)
			}
		case 0, 1:
			if l.model.write(p, content) {
				os.MkdirAll(filepath.Dir(fp), 0o755)
				if err := os.WriteFile(fp, []byte(content), 0o644); err != nil {
					panic(fmt.Sprintf("scratch write %s: %v", fp, err))
				}
				c.hist = append(c.hist, "os.WriteFile("+p+")")
			}
		case 2:
			if l.model.mkdirAll(p) {
				os.MkdirAll(fp, 0o755)
				c.hist = append(c.hist, "os.MkdirAll("+p+")")
			}
		case 3, 4:
			l.model.removeAll(p)
			os.RemoveAll(fp)
			for q := range l.links {
				if q == p || strings.HasPrefix(q, p+"/") {
					delete(l.links, q)
				}
			}
			c.hist = append(c.hist, "os.RemoveAll("+p+")")
		}
	case "httpfs":
		switch t.Choose(5) {
		case 0, 1:
			if l.model.write(p, content) {
				c.hist = append(c.hist, "simfs.write("+p+")")
			}
		case 2:
			if l.model.mkdirAll(p) {
				c.hist = append(c.hist, "simfs.mkdir("+p+")")
			}
		case 3, 4:
			l.model.removeAll(p)
			c.hist = append(c.hist, "simfs.removeAll("+p+")")
		}
	}
}

// heldReader: Open(p) on the in-memory loader, then the entry is stored again (other bytes, shorter,
// longer or of the same length) or deleted, and only then the reader is drained. What it yields must
// be one complete stored version - the one present at Open, or a later one - never bytes that were
// not stored under p as a whole.
func (c *c19) heldReader(l *lut) {
	var files []string
	for f := range l.model.files {
		files = append(files, f)
	}
	sort.Strings(files)
	if len(files) == 0 {
		return
	}
	t := c.t
	p := files[t.Choose(len(files))]
	old := l.model.files[p]
	rc, err := l.mem.Open(c19Spelling(t, p))
	if err != nil {
		c.env.Violate("contract", "inmem:open-fails", "inmem.Open(%q) failed (%v) although the path is stored\nhistory: %s", p, err, strings.Join(c.hist, " "))
		return
	}
	versions := []string{old}
	n := t.Range(1, 2)
	for i := 0; i < n; i++ {
		c.nVer++
		var content string
		switch t.Choose(4) {
		case 0: // shorter
			content = fmt.Sprintf("i#%d", c.nVer)
		case 1: // the same length, other bytes
			content = fmt.Sprintf("%d", c.nVer)
			for len(content) < len(old) {
				content += "~"
			}
			content = content[:len(old)]
		case 2: // longer
			content = old + fmt.Sprintf("+longer#%d", c.nVer)
		case 3:
			l.mem.Delete(c19Spelling(t, p))
			delete(l.model.files, p)
			c.hist = append(c.hist, fmt.Sprintf("inmem.Delete(%q) while a reader is open", p))
			continue
		}
		l.mem.Set(c19Spelling(t, p), content)
		l.model.files[p] = content
		versions = append(versions, content)
		c.hist = append(c.hist, fmt.Sprintf("inmem.Set(%q) while a reader is open", p))
	}
	data, rerr := io.ReadAll(rc)
	rc.Close()
	c.nQ++
	c.env.Stat("probe:reader_drained_after_the_entry_was_stored_again", 1)
	c.env.Event("held reader %s -> %q err=%v", p, data, rerr)
	if rerr != nil {
		c.env.Violate("contract", "inmem:held-reader", "a reader opened on %q failed after the entry was stored again: %v\nhistory: %s", p, rerr, strings.Join(c.hist, " "))
		return
	}
	for _, v := range versions {
		if string(data) == v {
			return
		}
	}
	c.env.Violate("contract", "inmem:held-reader", "a reader opened on %q and drained after the entry was stored again yielded %q, which was never stored as a whole (versions: %q)\nhistory: %s", p, sim.Clip(string(data), 200), clipAll(versions), strings.Join(c.hist, " "))
}

func clipAll(ss []string) []string {
	out := make([]string, len(ss))
	for i, s := range ss {
		out[i] = sim.Clip(s, 80)
	}
	return out
}

// panicOnceLoader is a member of a multi stack that panics in its at-th call (a user's loader with a
// bug): the panic comes out of the multi loader's call, and the stack must be usable afterwards -
// lookups, AddLoaders, ClearLoaders.
type panicOnceLoader struct {
	inner jet.Loader
	at    int
	n     int
	fired *int
}

func (l *panicOnceLoader) tick(what, p string) {
	l.n++
	if l.n == l.at {
		*l.fired++
		panic(fmt.Errorf("INJ-loader: a member loader panicked in %s(%q)", what, p))
	}
}

func (l *panicOnceLoader) Exists(p string) bool {
	l.tick("Exists", p)
	return l.inner.Exists(p)
}

func (l *panicOnceLoader) Open(p string) (io.ReadCloser, error) {
	l.tick("Open", p)
	return l.inner.Open(p)
}

// openFailOnceLoader is a member of a multi stack whose at-th Open fails (a transient I/O error) while
// Exists keeps saying true: the stack must report the failure, not answer from a later loader.
type openFailOnceLoader struct {
	inner jet.Loader
	at    int
	n     int
	fired *int
	kind  int // what the failure looks like: a plain error, "does not exist" (although the member has the file), "permission", io.EOF
	// shadowing (optional): the failure waits for the first Open, from the at-th on, of a path that a
	// later member holds too - the place where answering from the wrong member would go unnoticed least
	shadowing func(p string) bool
	done      bool
}

func (l *openFailOnceLoader) Exists(p string) bool { return l.inner.Exists(p) }

func (l *openFailOnceLoader) Open(p string) (io.ReadCloser, error) {
	l.n++
	if (l.shadowing == nil && l.n == l.at) || (l.shadowing != nil && !l.done && l.n >= l.at && l.shadowing(p)) {
		l.done = true
		*l.fired++
		switch l.kind {
		case 1:
			return nil, &os.PathError{Op: "open", Path: "INJ-loader" + p, Err: os.ErrNotExist}
		case 2:
			return nil, &os.PathError{Op: "open", Path: "INJ-loader" + p, Err: os.ErrPermission}
		case 3:
			return nil, io.EOF
		}
		return nil, fmt.Errorf("INJ-loader: transient failure opening %q", p)
	}
	return l.inner.Open(p)
}

// openOnly: Open(p) some time after an Exists(p) call, with edits in between. Judged against the
// reference at the time of the Open: if the path is a file now, Open must yield its current bytes.
func (c *c19) openOnly(name string, ld jet.Loader, owners []*lut, p string, spelled string) {
	c.nQ++
	wantFile, wantBytes, ownerKind := false, "", ""
	for _, o := range owners {
		if b, ok := o.model.files[p]; ok {
			wantFile, wantBytes, ownerKind = true, b, o.kind
			break
		}
	}
	if !wantFile {
		return
	}
	var data []byte
	var err error
	panicsBefore := c.memberPanics
	openFailsBefore := c.memberOpenFails
	pc := sim.Guard(func() {
		var rc io.ReadCloser
		rc, err = ld.Open(spelled)
		if err == nil {
			data, err = io.ReadAll(rc)
			rc.Close()
		}
	})
	c.env.Event("%s.Open(%q) later -> err=%v", name, spelled, err)
	if pc != nil && c.memberPanics > panicsBefore {
		c.env.Stat("fault:member_loader_panics", 1)
		return
	}
	if pc != nil {
		c.env.Violate("contract", name+":panic", "%s.Open(%q) panicked: %v", name, spelled, pc)
		return
	}
	if err != nil && c.memberOpenFails > openFailsBefore {
		c.env.Stat("fault:member_loader_open_fails_once", 1)
		return
	}
	if err != nil {
		c.env.Violate("contract", name+":open-fails", "%s.Open(%q) failed (%v) although the path is a regular file (of the %s loader) and Exists had been asked before\nhistory: %s", name, spelled, err, ownerKind, strings.Join(c.hist, " "))
		return
	}
	if string(data) != wantBytes {
		key := name + ":content"
		if len(owners) > 1 {
			key = name + ":order"
		}
		c.env.Violate("contract", key, "%s.Open(%q), some edits after the Exists call, read %q; the reference holds %q now (first loader in construction order that has the path: %s)\nhistory: %s", name, spelled, data, wantBytes, ownerKind, strings.Join(c.hist, " "))
	}
}

// query checks Exists/Open of one path on a loader against the expectation.
// owners: the models in stack order (one element for a plain loader).
func (c *c19) query(name string, ld jet.Loader, owners []*lut, p string, spelled string, faulty *simFS) {
	c.nQ++
	wantFile, wantBytes, ownerKind := false, "", ""
	isDirSomewhere := false
	for _, o := range owners {
		if b, ok := o.model.files[p]; ok {
			wantFile, wantBytes, ownerKind = true, b, o.kind
			break
		}
		if o.model.dirs[p] {
			isDirSomewhere = true
		}
	}
	if faulty != nil {
		faulty.lastHit = false
	}
	var ex bool
	panicsBefore := c.memberPanics
	pc := sim.Guard(func() { ex = ld.Exists(spelled) })
	if pc != nil && c.memberPanics > panicsBefore {
		c.env.Event("%s.Exists(%q): a member loader panicked", name, spelled)
		c.env.Stat("fault:member_loader_panics", 1)
		return // the member's panic came out of the call; nothing to judge in this query
	}
	hit := faulty != nil && faulty.lastHit
	c.env.Event("%s.Exists(%q)=%v want=%v", name, spelled, ex, wantFile)
	if pc != nil {
		c.env.Violate("contract", name+":panic", "%s.Exists(%q) panicked: %v", name, spelled, pc)
		return
	}
	if isDirSomewhere {
		c.env.Stat("probe:queried_a_directory_path", 1)
	}
	if ex != wantFile && !(hit && !ex) {
		key := name + ":exists-missing"
		if !ex {
			key = name + ":missing-exists"
		} else if isDirSomewhere {
			key = name + ":exists-dir"
		}
		c.env.Violate("contract", key, "%s.Exists(%q) = %v, but the reference tree has file=%v (directory there: %v)\nhistory: %s", name, spelled, ex, wantFile, isDirSomewhere, strings.Join(c.hist, " "))
		return
	}
	if !ex {
		return
	}
	if faulty != nil {
		faulty.lastHit = false
	}
	var rc io.ReadCloser
	var err error
	var data []byte
	openFailsBefore := c.memberOpenFails
	pc = sim.Guard(func() {
		rc, err = ld.Open(spelled)
		if err == nil {
			data, err = io.ReadAll(rc)
			rc.Close()
		}
	})
	hit = faulty != nil && faulty.lastHit
	if pc != nil && c.memberPanics > panicsBefore {
		c.env.Stat("fault:member_loader_panics", 1)
		return
	}
	if pc != nil {
		c.env.Violate("contract", name+":panic", "%s.Open(%q) panicked: %v", name, spelled, pc)
		return
	}
	if err != nil {
		if hit {
			return // an injected fault may fail this call; wrong bytes are never acceptable
		}
		if c.memberOpenFails > openFailsBefore {
			c.env.Stat("fault:member_loader_open_fails_once", 1)
			return
		}
		c.env.Violate("contract", name+":open-fails", "%s.Exists(%q) is true but Open/Read failed: %v (expected content of the %s loader)\nhistory: %s", name, spelled, err, ownerKind, strings.Join(c.hist, " "))
		return
	}
	if string(data) != wantBytes {
		key := name + ":content"
		if len(owners) > 1 {
			key = name + ":order"
		}
		c.env.Violate("contract", key, "%s.Open(%q) read %q, expected %q (first loader in construction order that has the path: %s)\nhistory: %s", name, spelled, data, wantBytes, ownerKind, strings.Join(c.hist, " "))
	}
}

func RunC19(env *sim.Env) {
	t := env.Tape
	if t.Choose(12) == 11 {
		// one run in twelve: overlapping lookups on one multi loader (conc_more.go)
		runC19Concurrent(env)
		return
	}
	c := &c19{env: env, t: t}
	defer func() {
		if c.cwd != "" {
			os.Chdir(c.cwd)
		}
		for _, d := range c.scrat {
			os.RemoveAll(d)
		}
	}()
	config := t.Weighted(3, 2, 3, 1, 4, 1)
	switch config {
	case 0, 1, 2, 5: // single loader with edits
		kind := map[int]string{0: "inmem", 1: "os", 2: "httpfs", 5: "httpdir"}[config]
		l := c.newLut(kind)
		nOps := t.Range(3, 25)
		for i := 0; i < nOps; i++ {
			if t.Choose(5) < 2 {
				c.edit(l)
				continue
			}
			if kind == "inmem" && t.Choose(6) == 5 {
				c.heldReader(l)
				continue
			}
			p := c19Path(t)
			// bias queries towards paths that exist in some form
			if t.Choose(3) > 0 {
				var known []string
				for f := range l.model.files {
					known = append(known, f)
				}
				for d := range l.model.dirs {
					known = append(known, d)
				}
				sort.Strings(known)
				if len(known) > 0 {
					p = known[t.Choose(len(known))]
					if t.Choose(4) == 3 && p != "/" {
						p = Dir(p)
					}
				}
			}
			// what was just edited (created, replaced by a directory, removed) is asked for again, and what
			// was asked for is edited next: a loader that remembers an answer must notice the edit
			if c.lastEdit != "" && t.Choose(4) == 0 {
				p = c.lastEdit
			}
			c.recentQ = append(c.recentQ, p)
			if len(c.recentQ) > 3 {
				c.recentQ = c.recentQ[1:]
			}
			spelled := p
			if kind == "inmem" {
				spelled = c19Spelling(t, p)
			}
			var faulty *simFS
			if kind == "httpfs" && t.Choose(5) == 4 {
				l.sfs.faultIn = t.Choose(3)
				faulty = l.sfs
			}
			c.query(kind, l.loader, []*lut{l}, p, spelled, faulty)
			if kind == "httpfs" {
				l.sfs.faultIn = -1
			}
			if t.Choose(5) == 4 {
				// an edit between the Exists and a later Open of the same path
				c.edit(l)
				c.hist = append(c.hist, "Open-later("+p+")")
				c.openOnly(kind, l.loader, []*lut{l}, p, spelled)
				env.Stat("probe:open_after_intervening_edit", 1)
			}
		}
		if l.sfs != nil {
			for k, n := range l.sfs.fired {
				env.Stat("fault:simfs_"+k, int64(n))
			}
		}
	case 3: // embedfs: exhaustive sweep over its alphabet up to depth 4
		l := c.newLut("embedfs")
		alpha := []string{"top.jet", "sub", "sub.jet", "a.jet", "deep", "b.jet", "dirfile", "dirfile.jet", "x.jet", "noext", "missing"}
		var sweep func(prefix string, depth int)
		n := 0
		sweep = func(prefix string, depth int) {
			for _, s := range alpha {
				p := prefix + "/" + s
				c.query("embedfs", l.loader, []*lut{l}, p, p, nil)
				n++
				// descend only below directories of the tree (everything else is uniformly missing) plus one miss level
				if depth < 4 && (l.model.dirs[p] || depth < 2) {
					sweep(p, depth+1)
				}
			}
		}
		sweep("", 1)
		c.query("embedfs", l.loader, []*lut{l}, "/", "/", nil)
		env.Stat("counters:embedfs_paths_swept_exhaustively", int64(n+1))
	case 4: // multi stacks with overlapping contents
		n := t.Range(1, 3)
		var luts []*lut
		for i := 0; i < n; i++ {
			luts = append(luts, c.newLut([]string{"inmem", "os", "httpfs", "inmem"}[t.Choose(4)]))
		}
		// one member in six is a loader that panics once, in its k-th call
		if t.Choose(6) == 5 {
			v := luts[t.Choose(len(luts))]
			v.loader = &panicOnceLoader{inner: v.loader, at: t.Range(1, 8), fired: &c.memberPanics}
			c.hist = append(c.hist, "member-"+v.kind+"-panics-once")
			env.Stat("probe:multi_with_a_member_that_panics_once", 1)
		}
		// (spare capacity, as a list built by append usually has: what one stack appends must not
		// show up in another stack built from the same list)
		// one stack in three has a member whose k-th Open fails once
		if t.Choose(3) == 2 {
			vi := t.Choose(len(luts))
			v := luts[vi]
			fl := &openFailOnceLoader{inner: v.loader, at: t.Range(1, 4), fired: &c.memberOpenFails, kind: []int{0, 1, 1, 1, 2, 3}[t.Choose(6)]}
			if t.Choose(2) == 1 {
				later := luts[vi+1:]
				fl.shadowing = func(p string) bool {
					for _, o := range later {
						if _, ok := o.model.files[Normalize(p)]; ok {
							return true
						}
					}
					return false
				}
			}
			v.loader = fl
			c.hist = append(c.hist, "member-"+v.kind+"-open-fails-once")
			env.Stat("probe:multi_with_a_member_whose_open_fails_once", 1)
		}
		loaders := make([]jet.Loader, 0, n+3)
		nInitial := t.Range(1, n)
		for _, l := range luts[:nInitial] {
			loaders = append(loaders, l.loader)
		}
		// sometimes the first loaders sit in an inner Multi that is itself an element of the outer
		// one: the stack order is the same, and loaders added to the inner one later belong there
		var inner *multi.Multi
		nestedInner := 0
		if nInitial >= 1 && t.Choose(3) == 2 {
			nestedInner = t.Range(1, nInitial)
			inner = multi.NewLoader(loaders[:nestedInner]...)
			loaders = append([]jet.Loader{inner}, loaders[nestedInner:]...)
			env.Stat("probe:multi_nested_in_multi", 1)
		}
		m := multi.NewLoader(loaders...)
		// a second stack built from the very same slice of loaders (per-request stacks over one shared
		// list): whatever happens to the first one later, this one keeps its construction order
		twin := multi.NewLoader(loaders...)
		twinOwners := append([]*lut(nil), luts[:nInitial]...)
		if t.Choose(3) == 2 {
			// the caller goes on using its own slice: the stacks built from it keep the loaders
			// they were built with, in that order
			nobody := c.newLut("inmem")
			loaders[t.Choose(len(loaders))] = nobody.loader
			c.hist = append(c.hist, "callers-slice-element-overwritten")
			env.Stat("probe:callers_slice_written_after_NewLoader", 1)
		}
		if inner == nil && t.Bool(1, 2) {
			// ... and gets a loader of its own: the two stacks share their first loaders only
			xl := c.newLut("inmem")
			xl.mem.Set("/twin-only.jet", "inmem:/twin-only.jet#twin")
			xl.model.files["/twin-only.jet"] = "inmem:/twin-only.jet#twin"
			twin.AddLoaders(xl.loader)
			twinOwners = append(twinOwners, xl)
			c.hist = append(c.hist, "twin-stack.AddLoaders(own)")
			env.Stat("probe:second_stack_with_a_loader_of_its_own", 1)
		}
		active := luts[:nInitial]
		kinds := []string{}
		for _, l := range luts {
			kinds = append(kinds, l.kind)
		}
		c.hist = append(c.hist, fmt.Sprintf("multi%v(initial %d)", kinds, nInitial))
		nOps := t.Range(4, 25)
		for i := 0; i < nOps; i++ {
			switch {
			case t.Choose(5) < 2:
				c.edit(luts[t.Choose(len(luts))])
				// edits of a stack gather on few paths: the same path in several members is what a stack is for
				if c.lastEdit != "/" && c.lastEdit != "" {
					c.recentQ = append(c.recentQ, c.lastEdit, c.lastEdit)
				}
			case inner == nil && t.Choose(12) == 11:
				// ClearLoaders, then some of the same loader instances come back in another order
				m.ClearLoaders()
				perm := append([]*lut(nil), luts...)
				for i := len(perm) - 1; i > 0; i-- {
					j := t.Choose(i + 1)
					perm[i], perm[j] = perm[j], perm[i]
				}
				k := t.Range(0, len(perm))
				active = nil
				for _, l := range perm[:k] {
					m.AddLoaders(l.loader)
					active = append(active, l)
				}
				// the loaders not added back are next in line for later AddLoaders calls
				luts = append(append([]*lut(nil), active...), perm[k:]...)
				c.hist = append(c.hist, fmt.Sprintf("ClearLoaders+AddLoaders(%d of %d, reordered)", k, len(perm)))
				env.Stat("probe:multi_ClearLoaders_then_same_instances_added_again", 1)
			case len(active) < len(luts) && t.Choose(6) == 5:
				nl := luts[len(active)]
				if inner != nil && t.Choose(2) == 1 {
					// added to the INNER multi: it takes its place right after the inner's loaders,
					// i.e. before the rest of the outer stack
					inner.AddLoaders(nl.loader)
					reordered := append([]*lut(nil), active[:nestedInner]...)
					reordered = append(reordered, nl)
					reordered = append(reordered, active[nestedInner:]...)
					nestedInner++
					active = reordered
					c.hist = append(c.hist, "inner.AddLoaders")
					env.Stat("probe:inner_multi_AddLoaders_mid_history", 1)
					// luts order must follow so that later additions pick the right next element
					rest := luts[len(active):]
					luts = append(append([]*lut(nil), active...), rest...)
				} else {
					m.AddLoaders(nl.loader)
					active = luts[:len(active)+1]
					c.hist = append(c.hist, "AddLoaders")
				}
				env.Stat("probe:multi_AddLoaders_mid_history", 1)
			default:
				p := c19Path(t)
				if t.Choose(3) > 0 {
					var known []string
					for _, l := range luts {
						for f := range l.model.files {
							known = append(known, f)
						}
						for d := range l.model.dirs {
							known = append(known, d)
						}
					}
					sort.Strings(known)
					if len(known) > 0 {
						p = known[t.Choose(len(known))]
					}
				}
				// overlapping shapes: directory in an earlier loader, file in a later one
				for i, l := range active {
					if l.model.dirs[p] && p != "/" {
						for _, l2 := range active[i+1:] {
							if l2.model.hasFile(p) {
								env.Stat("probe:multi_dir_in_earlier_file_in_later_loader", 1)
							}
						}
					}
				}
				if t.Choose(4) == 3 {
					// Exists now, an edit, Open later
					c.query("multi", m, active, p, p, nil)
					c.edit(luts[t.Choose(len(luts))])
					if t.Choose(2) == 1 {
						c.edit(luts[t.Choose(len(luts))])
					}
					c.hist = append(c.hist, "Open-later("+p+")")
					c.openOnly("multi", m, active, p, p)
					env.Stat("probe:open_after_intervening_edit", 1)
				} else {
					c.query("multi", m, active, p, p, nil)
				}
			}
		}
		// the second stack over the same slice answers as constructed (only when the first loaders are not
		// wrapped in an inner Multi, whose later additions are shared by design)
		if inner == nil {
			var known []string
			for _, l := range twinOwners {
				for f := range l.model.files {
					known = append(known, f)
				}
			}
			sort.Strings(known)
			for i := 0; i < 3 && len(known) > 0; i++ {
				p := known[t.Choose(len(known))]
				c.hist = append(c.hist, "twin-stack-query("+p+")")
				c.query("multi", twin, twinOwners, p, p, nil)
			}
			env.Stat("probe:second_stack_built_from_the_same_slice_queried", 1)
		}
	}
	env.Stat("counters:queries", int64(c.nQ))
	env.Stat("probe:config_"+[]string{"inmem", "os_real_scratch_dir", "httpfs_simfs", "embedfs_exhaustive", "multi_stack", "httpfs_over_real_http_Dir"}[config], 1)
	// every file handle the loader took from the (simulated) file system was given back: a long-lived
	// process probes directories and missing files millions of times
	for _, l := range c.luts {
		if l.sfs != nil && l.sfs.opened != l.sfs.closed {
			env.Violate("contract", "httpfs:file-handles-left-open", "the httpfs loader opened %d files of its file system and closed %d\nhistory: %s", l.sfs.opened, l.sfs.closed, strings.Join(c.hist, " "))
		}
	}
	env.Res.Nontrivial = c.nQ > 0
	env.Res.Sig = fmt.Sprintf("%016x", sim.HashString(strings.Join(c.hist, ";")+fmt.Sprint(config, c.nQ)))
	env.Res.Sample = fmt.Sprintf("config=%d queries=%d history: %s", config, c.nQ, sim.Clip(strings.Join(c.hist, " "), 1500))
}
