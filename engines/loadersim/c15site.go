package loadersim

import (
	"bytes"
	"fmt"
	"strings"

	jet "github.com/CloudyKit/jet/v6"

	"verif/sim"
)

// C15, layout-heavy site: ONE execution in which the same relative spelling is included from
// templates that live in different directories, and control crosses from one template into another
// without an include: the layout's root yields blocks written in an intermediate layout and in the
// page (an extends chain across directories), a block imported from a library in yet another
// directory, and `yield … content` hands the page's content to a wrapper written in the layout.
// "Relative names resolve against the directory of the referring template": every directory has its
// own partial under that spelling, with its own text; a model says which text each include renders.
// Includes are repeated (range) so that anything remembered per execution is used a second time.
func runC15Site(env *sim.Env) {
	t := env.Tape
	dirs := []string{"/layouts", "/shop", "/shop/products", "/lib", "/a/b", "/"}
	pick := func() string { return dirs[t.Choose(len(dirs))] }
	dL, dM, dP, dI := pick(), pick(), pick(), pick()
	spelling := []string{"part.jet", "./part.jet", "partials/nav.jet", "x/../part.jet", "partials/../part.jet"}[t.Choose(5)]
	useMid := t.Bool(2, 3)
	useImport := t.Bool(1, 2)
	useWrap := t.Bool(1, 2)
	reps := []int{1, 2, 3}[t.Choose(3)]
	dev := t.Bool(1, 3)
	kind := t.Choose(3) // 0 include, 1 includeIfExists, 2 include with a computed name

	join := func(d, f string) string { return Normalize(d + "/" + f) }
	files := map[string]string{}
	// includeIfExists resolves against the root ("elsewhere against the root"), wherever it is written
	text := func(d string) string {
		if kind == 1 {
			d = "/"
		}
		return "part(" + d + ")"
	}
	fileText := func(d string) string { return "part(" + d + ")" }
	for _, d := range dirs {
		files[join(d, spelling)] = fileText(d)
	}
	inc := func() string {
		var one string
		switch kind {
		case 0:
			one = fmt.Sprintf(`{{include %q}}`, spelling)
		case 1:
			one = fmt.Sprintf(`{{includeIfExists(%q)}}`, spelling)
		default:
			one = `{{include nm}}`
		}
		if reps == 1 {
			return one
		}
		return fmt.Sprintf(`{{range ints(0, %d)}}%s{{end}}`, reps, one)
	}
	rep := func(s string) string { return strings.Repeat(s, reps) }

	// the layout
	var lay, want strings.Builder
	lay.WriteString("<html>" + inc())
	want.WriteString("<html>" + rep(text(dL)))
	if useWrap {
		lay.WriteString(`{{block wrap()}}(w:` + inc() + `{{yield content}})` + `{{end}}`)
		want.WriteString("(w:" + rep(text(dL)) + ")") // the block definition renders in place, without content
	}
	lay.WriteString(`[{{block main()}}main0{{end}}|{{block side()}}side0{{end}}]` + inc() + `</html>`)
	layPath := join(dL, "layout.jet")
	files[layPath] = lay.String()

	top := layPath
	mainOut, sideOut := "main0", "side0"
	if useMid {
		midPath := join(dM, "mid.jet")
		files[midPath] = fmt.Sprintf(`{{extends %q}}{{block main()}}m:%s{{end}}`, layPath, inc())
		mainOut = "m:" + rep(text(dM))
		top = midPath
	}
	pagePath := join(dP, "page.jet")
	var page strings.Builder
	fmt.Fprintf(&page, `{{extends %q}}`, top)
	if useImport {
		libPath := join(dI, "blocks.jet")
		files[libPath] = `{{block libnav()}}l:` + inc() + `{{end}}`
		fmt.Fprintf(&page, `{{import %q}}`, libPath)
	}
	page.WriteString(`{{block side()}}s:` + inc())
	sideOut = "s:" + rep(text(dP))
	if useImport {
		page.WriteString(`{{yield libnav()}}`)
		sideOut += "l:" + rep(text(dI))
	}
	if useWrap {
		page.WriteString(`{{yield wrap() content}}c:` + inc() + `{{end}}`)
		sideOut += "(w:" + rep(text(dL)) + "c:" + rep(text(dP)) + ")"
	}
	page.WriteString(`{{end}}`)
	files[pagePath] = page.String()
	want.WriteString("[" + mainOut + "|" + sideOut + "]" + rep(text(dL)) + "</html>")

	mem := jet.NewInMemLoader()
	for p, s := range files {
		mem.Set(p, s)
	}
	loader := NewSimLoader(mem)
	c := &c15{env: env, t: t, exts: []string{""}, curKind: "site"}
	loader.OnCall = func(cl Call) { c.checkPath("Loader."+cl.Seam, cl.Path) }
	opts := []jet.Option{jet.WithTemplateNameExtensions([]string{""}), jet.WithSafeWriter(nil)}
	if dev {
		opts = append(opts, jet.InDevelopmentMode())
	}
	set := jet.NewSet(loader, opts...)
	var desc strings.Builder
	fmt.Fprintf(&desc, "layout in %s, intermediate layout in %s (used: %v), page in %s, block library in %s (used: %v), wrapper with content: %v, spelling %q, each include %d time(s), development mode %v\n", dL, dM, useMid, dP, dI, useImport, useWrap, spelling, reps, dev)
	for _, p := range sim.SortedKeys(files) {
		if !strings.HasPrefix(files[p], "part(") {
			fmt.Fprintf(&desc, "--- %s\n%s\n", p, files[p])
		}
	}
	c.curOp = "rendering the page of a layout-heavy site"
	for round := 0; round < 2; round++ {
		var out bytes.Buffer
		var err error
		pc := sim.Guard(func() {
			var tm *jet.Template
			tm, err = set.GetTemplate(pagePath)
			if err == nil {
				err = tm.Execute(&out, jet.VarMap{}.Set("nm", spelling), nil)
			}
		})
		env.Event("site round %d -> %q err=%v", round, out.String(), err)
		switch {
		case pc != nil:
			env.Violate("no-panic", "site:panic", "round %d panicked: %v\n%s", round, pc, desc.String())
		case err != nil:
			env.Violate("resolution", "site:target-not-found", "round %d: every partial exists, yet rendering failed: %v\n%s", round, err, desc.String())
		case out.String() != want.String():
			env.Violate("resolution", "site:wrong-base", "round %d rendered %s\nby the directories the includes are written in: %s\n%s", round, sim.Q(out.String()), sim.Q(want.String()), desc.String())
		}
	}
	env.Stat("probe:layout_site_same_spelling_from_several_directories_in_one_execution", 1)
	env.Stat("counters:seam_paths_checked", int64(c.nSeam))
	env.Res.Nontrivial = true
	env.Res.Sig = fmt.Sprintf("site:%016x", sim.HashString(desc.String()))
	env.Res.Sample = "layout-heavy site: " + desc.String() + "-> " + want.String()
}
