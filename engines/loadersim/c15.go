package loadersim

import (
	"bytes"
	"fmt"
	"os"
	"path/filepath"
	"strings"

	jet "github.com/CloudyKit/jet/v6"
	"github.com/CloudyKit/jet/v6/loaders/multi"

	"verif/sim"
)

// C15 — template names are canonicalised: loaders and caches only ever see
// clean absolute paths, relative names resolve against the referrer (extends,
// import, include) or the root (elsewhere), nothing resolves above the root
// (DESIGN.md §6 C15). Seam invariant, checked on every call.

// /ab/t.jet vs /a/b/t.jet: directory + name concatenate to the same string without a separator
var c15Targets = []string{"/t.jet", "/.dot/t.jet", "/a/t.jet", "/a/b/t.jet", "/a/b/c/t.jet", "/lib.jet", "/a/lib.jet", "/a/b/lib.jet", "/ab/t.jet", "/a/bc/t.jet", "/zz.jet"}
var c15RefDirs = []string{"/", "/a", "/a/b", "/a/b/c"}

const canary = "CANARY-SECRET-OUTSIDE-ROOT"

func targetContent(p string) string {
	return fmt.Sprintf("<T:%s>{{block lb()}}<B:%s>{{end}}", p, p)
}

// spell produces a spelling of a name; returns the spelled string.
func spell(t *sim.Tape, target, refDir string, relativeOK bool) string {
	segs := strings.Split(strings.TrimPrefix(target, "/"), "/")
	dropExt := t.Choose(3) == 2
	if dropExt {
		segs[len(segs)-1] = strings.TrimSuffix(segs[len(segs)-1], ".jet")
	}
	noise := func(parts []string) []string {
		var out []string
		for i, s := range parts {
			switch t.Choose(7) {
			case 1:
				out = append(out, ".")
			case 2:
				out = append(out, "x", "..")
			case 3:
				out = append(out, "")
			case 4:
				if i > 0 {
					out = append(out, "..", parts[i-1])
				}
			}
			out = append(out, s)
		}
		return out
	}
	// unclean tails: the only unclean part may be the very end of the name
	tail := func(s string) string {
		switch t.Choose(6) {
		case 1:
			return s + "/"
		case 2:
			return s + "/."
		case 3:
			return s + "/zz/.."
		case 4:
			return s + "//"
		}
		return s
	}
	style := t.Choose(10)
	switch style {
	case 9: // backslashes: ordinary characters on this platform, never separators
		return []string{`..\..\secret.txt`, `a\b.jet`, `\t.jet`, `a\..\t.jet`, `.\t.jet`, `a/..\../t.jet`}[t.Choose(6)]
	case 8: // the whole name is a dot form (resolves to the referrer's directory or the root)
		return []string{".", "..", "./", "../", "", "/.", "/..", "./.", "a/.."}[t.Choose(9)]
	case 0: // absolute clean
		return "/" + strings.Join(segs, "/")
	case 7: // absolute, clean except for its tail
		return tail("/" + strings.Join(segs, "/"))
	case 1: // absolute unclean
		s := "/" + strings.Join(noise(segs), "/")
		if t.Choose(4) == 3 {
			s = "/.." + s
		}
		return tail(s)
	case 2, 3: // relative from the referrer's directory
		if !relativeOK {
			// root-relative without leading slash
			s := strings.Join(segs, "/")
			if style == 3 {
				s = strings.Join(noise(segs), "/")
			}
			return s
		}
		rd := strings.Split(strings.Trim(refDir, "/"), "/")
		if refDir == "/" {
			rd = nil
		}
		// common prefix
		i := 0
		for i < len(rd) && i < len(segs)-1 && rd[i] == segs[i] {
			i++
		}
		var parts []string
		for k := i; k < len(rd); k++ {
			parts = append(parts, "..")
		}
		rest := segs[i:]
		if style == 3 {
			rest = noise(rest)
			if t.Choose(3) == 2 {
				parts = append([]string{"."}, parts...)
			}
		}
		parts = append(parts, rest...)
		if style == 3 {
			return tail(strings.Join(parts, "/"))
		}
		return strings.Join(parts, "/")
	case 4: // climbs above the root
		ups := strings.Repeat("../", len(strings.Split(refDir, "/"))+t.Range(1, 3))
		return ups + strings.Join(segs, "/")
	case 5: // absolute, climbs above the root in the middle
		return "/a/../../.." + "/" + strings.Join(segs, "/")
	default: // aimed at the canary outside the root
		return []string{"../canary.jet", "/../canary.jet", "/a/../../canary.jet", "../../../../../canary.jet", "..//canary"}[t.Choose(5)]
	}
}

// nameStringer is a template name that is not a string but knows how to print itself.
type nameStringer struct{ s string }

func (n nameStringer) String() string { return n.s }

type c15 struct {
	env      *sim.Env
	t        *sim.Tape
	exts     []string
	loader   *SimLoader
	setFile  func(path, content string)
	set      *jet.Set
	allowed  map[string]bool
	curOp    string
	curKind  string
	curName  string
	curBases []string // alternative (wrong) resolutions, for the finding key
	ctrace   []Call
	nSeam    int
	nUnclean int
}

func (c *c15) checkPath(seam, p string) {
	c.nSeam++
	if !IsCanonical(p) {
		c.nUnclean++
		c.env.Violate("seam-invariant", c.curKind+":unclean", "%s: %s received the non-canonical path %q (name spelled %q)", c.curOp, seam, p, c.curName)
		return
	}
	if c.allowed != nil && !c.allowed[p] {
		key := c.curKind + ":outside-allowed-set"
		for _, wb := range c.curBases {
			for _, e := range c.exts {
				if p == wb+e {
					key = c.curKind + ":wrong-base"
				}
			}
		}
		c.env.Violate("seam-invariant", key, "%s: %s received %q, which is not the canonical form of the name %q for this reference (allowed: %v)", c.curOp, seam, p, c.curName, sim.SortedKeys(c.allowed))
	}
}

func RunC15(env *sim.Env) {
	t := env.Tape
	if t.Choose(12) == 11 {
		// one run in twelve: the same relative spelling from different directories at the same time (conc_more.go)
		runC15Concurrent(env)
		return
	}
	if t.Choose(10) == 9 {
		// one run in ten: a layout-heavy site rendered in one execution, judged by a model (c15site.go)
		runC15Site(env)
		return
	}
	c := &c15{env: env, t: t}
	// one run in six uses a 110-character name for the directory "a": referrer directory plus name
	// exceed 128 (and, two levels deep, 256) bytes
	c15Targets, c15RefDirs := c15Targets, c15RefDirs
	longNames := false
	if t.Choose(6) == 5 {
		longNames = true
		long := "a" + strings.Repeat("x", 109)
		lp := func(ps []string) []string {
			out := make([]string, len(ps))
			for i, p := range ps {
				segs := strings.Split(p, "/")
				for j, sg := range segs {
					if sg == "a" {
						segs[j] = long
					}
					if sg == "b" {
						segs[j] = "b" + strings.Repeat("y", 139)
					}
				}
				out[i] = strings.Join(segs, "/")
			}
			return out
		}
		c15Targets, c15RefDirs = lp(c15Targets), lp(c15RefDirs)
		env.Stat("probe:names_longer_than_128_bytes", 1)
	}
	// (the last lists hold "extensions" that begin with a slash: directory index files, a default one
	// level up - also spelled with dot segments, which the Set has to clean like any other path)
	c.exts = [][]string{{"", ".jet", ".html.jet", ".jet.html"}, {"", ".jet"}, {".jet"}, {"", ".html"}, {"", ".jet", "/index.jet"}, {"", ".jet", "/./index.jet"}, {"", ".jet", "/../default.jet"}}[t.Choose(7)]
	useOS := t.Choose(8) == 7
	var scratch string
	if useOS {
		var err error
		scratch, err = os.MkdirTemp("", "verif-c15-")
		if err != nil {
			panic(err)
		}
		defer os.RemoveAll(scratch)
		root := filepath.Join(scratch, "root")
		os.MkdirAll(root, 0o755)
		os.WriteFile(filepath.Join(scratch, "canary.jet"), []byte(canary), 0o644)
		os.WriteFile(filepath.Join(scratch, "canary"), []byte(canary), 0o644)
		c.loader = NewSimLoader(jet.NewOSFileSystemLoader(root))
		c.setFile = func(p, content string) {
			fp := filepath.Join(root, filepath.FromSlash(p))
			os.MkdirAll(filepath.Dir(fp), 0o755)
			os.WriteFile(fp, []byte(content), 0o644)
		}
		env.Stat("probe:runs_on_real_directory_loader_with_canary", 1)
	} else {
		mem := jet.NewInMemLoader()
		c.loader = NewSimLoader(mem)
		c.setFile = func(p, content string) { mem.Set(p, content) }
	}
	c.loader.OnCall = func(cl Call) { c.checkPath("Loader."+cl.Seam, cl.Path) }
	// loader faults: what the Set hands to its loader must be canonical also on the paths it takes when
	// the loader fails (retries, fall-backs, probes made to tell "missing" from "broken")
	nArmed := 0
	if t.Choose(3) == 2 {
		c.loader.PanicInExists = t.Choose(2) == 1
		n := t.Range(1, 3)
		for i := 0; i < n; i++ {
			p := c15Targets[t.Choose(len(c15Targets)-1)]
			c.loader.Arm(p, []int{FaultTransientMiss, FaultOpenError, FaultReadError, FaultPanic}[t.Choose(4)], t.Choose(8))
			nArmed++
		}
		env.Stat("probe:loader_faults_armed", 1)
	}
	var setLoader jet.Loader = c.loader
	if t.Choose(5) == 4 {
		setLoader = multi.NewLoader(c.loader) // the Set talks to a multi loader; the seam is its only member
		env.Stat("probe:set_over_multi_loader", 1)
	}
	for _, p := range c15Targets[:len(c15Targets)-1] {
		c.setFile(p, targetContent(p))
	}
	opts := []jet.Option{jet.WithTemplateNameExtensions(c.exts), jet.WithSafeWriter(nil)}
	var sc *SimCache
	if t.Choose(2) == 1 {
		sc = NewSimCache(&c.ctrace)
		opts = append(opts, jet.WithCache(sc))
	}
	if t.Choose(4) == 3 {
		opts = append(opts, jet.InDevelopmentMode())
	}
	c.set = jet.NewSet(setLoader, opts...)

	kinds := []string{"GetTemplate", "Parse", "extends", "import", "include", "include-computed", "include-stringer", "exec", "includeIfExists"}
	nOps := t.Range(3, 10)
	var hist []string
	nRef := 0
	// one run in eight begins with two relative references whose (directory, name) pairs are different
	// but concatenate to the same string ("/" + "ab/t.jet" and "/a" + "b/t.jet"): whatever is remembered
	// about a resolution must be remembered for the pair
	type forcedOp struct{ target, refDir, name string }
	var forced []forcedOp
	forcedKind := ""
	if t.Choose(8) == 7 && !longNames {
		pairs := [][]forcedOp{
			{{"/ab/t.jet", "/", "ab/t.jet"}, {"/a/b/t.jet", "/a", "b/t.jet"}},
			{{"/a/bc/t.jet", "/a", "bc/t.jet"}, {"/a/b/c/t.jet", "/a/b", "c/t.jet"}},
		}
		forced = pairs[t.Choose(2)]
		if t.Bool(1, 2) {
			forced = []forcedOp{forced[1], forced[0]}
		}
		forcedKind = []string{"include", "extends", "import", "include-computed"}[t.Choose(4)]
		env.Stat("probe:two_references_whose_directory_and_name_concatenate_alike", 1)
	}
	for i := 0; i < nOps; i++ {
		kind := kinds[t.Choose(len(kinds))]
		target := c15Targets[t.Choose(len(c15Targets))]
		refDir := c15RefDirs[t.Choose(len(c15RefDirs))]
		relative := kind == "extends" || kind == "import" || kind == "include" || kind == "include-computed" || kind == "include-stringer"
		name := spell(t, target, refDir, relative)
		if i < len(forced) {
			kind, target, refDir, name, relative = forcedKind, forced[i].target, forced[i].refDir, forced[i].name, true
		}
		nRef++
		refPath := Normalize(refDir + fmt.Sprintf("/r%d.jet", nRef))
		var expected string
		if relative && !strings.HasPrefix(name, "/") {
			expected = Normalize(refDir + "/" + name)
		} else {
			expected = Normalize("/" + name)
		}
		// the referrer itself is requested the way this extension list wants it
		refReq := refPath
		if c.exts[0] != "" {
			refReq = strings.TrimSuffix(refPath, ".jet")
		}
		c.curKind, c.curName = kind, name
		c.curBases = []string{Normalize("/" + name), Normalize(refDir + "/" + name)}
		c.allowed = map[string]bool{}
		for _, e := range c.exts {
			c.allowed[Normalize(expected+e)] = true
			c.allowed[Normalize(refPath+e)] = true
			c.allowed[Normalize(refReq+e)] = true
		}
		c.allowed[refReq] = true
		// requests and cache keys may also be the extension-less forms
		c.allowed[expected] = true
		c.allowed[refPath] = true
		c.curOp = fmt.Sprintf("%s %q from referrer %s (extensions %q, expected target %s)", kind, name, refPath, c.exts, expected)
		ct0 := len(c.ctrace)
		firedBefore, panicsBefore := sumFired(c.loader), c.loader.Fired[FaultPanic]
		var out bytes.Buffer
		var err error
		var tmpl *jet.Template
		var pc *sim.Caught
		execute := func(src string, vars jet.VarMap) {
			c.setFile(refPath, src)
			pc = sim.Guard(func() {
				tmpl, err = c.set.GetTemplate(refReq)
				if err == nil {
					err = tmpl.Execute(&out, vars, nil)
				}
			})
		}
		switch kind {
		case "GetTemplate":
			delete(c.allowed, refPath)
			pc = sim.Guard(func() {
				tmpl, err = c.set.GetTemplate(name)
				if err == nil {
					err = tmpl.Execute(&out, nil, nil)
				}
			})
		case "Parse":
			// Parse under an arbitrarily spelled name, with a relative reference inside
			pname := spell(t, Normalize(refDir+"/p.jet"), "/", false)
			pcanon := Normalize("/" + pname)
			inner := spell(t, target, Dir(pcanon), true)
			var exp2 string
			if strings.HasPrefix(inner, "/") {
				exp2 = Normalize(inner)
			} else {
				exp2 = Normalize(Dir(pcanon) + "/" + inner)
			}
			c.curName = pname + " -> " + inner
			c.allowed = map[string]bool{exp2: true}
			for _, e := range c.exts {
				c.allowed[Normalize(exp2+e)] = true
			}
			c.curBases = []string{Normalize("/" + inner)}
			c.curOp = fmt.Sprintf("Parse(%q, include %q) (extensions %q, expected target %s)", pname, inner, c.exts, exp2)
			pc = sim.Guard(func() {
				tmpl, err = c.set.Parse(pname, fmt.Sprintf(`{{include %q}}`, inner))
				if err == nil {
					if tmpl.Name != pcanon {
						c.env.Violate("seam-invariant", "Parse:template-name", "Parse(%q) produced a template named %q, expected %q", pname, tmpl.Name, pcanon)
					}
					err = tmpl.Execute(&out, nil, nil)
				}
			})
		case "extends":
			execute(fmt.Sprintf(`{{extends %q}}{{block lb()}}child{{end}}`, name), nil)
		case "import":
			execute(fmt.Sprintf(`{{import %q}}{{yield lb()}}`, name), nil)
		case "include":
			if t.Choose(3) == 2 && refDir != "/" {
				// two references from one referrer: a "../" form first (which must not change what the
				// referrer's directory is for the second)
				up := "../" + strings.TrimPrefix(c15Targets[0], "/") // "../t.jet": one level above the referrer
				upTarget := Normalize(refDir + "/" + up)
				for _, e := range c.exts {
					c.allowed[Normalize(upTarget+e)] = true
				}
				c.allowed[upTarget] = true
				execute(fmt.Sprintf(`{{try}}{{include %q}}{{catch}}{{end}}[{{include %q}}]`, up, name), nil)
				env.Stat("probe:two_references_from_one_referrer", 1)
				break
			}
			execute(fmt.Sprintf(`[{{include %q}}]`, name), nil)
		case "include-computed":
			execute(`[{{include dir + nm}}]`, jet.VarMap{}.Set("dir", "").Set("nm", name))
		case "include-stringer":
			// the name comes from data as a fmt.Stringer (a typed path, a URL-like value)
			execute(`[{{include nm}}]`, jet.VarMap{}.Set("nm", nameStringer{name}))
		case "exec":
			execute(fmt.Sprintf(`[{{exec(%q)}}]`, name), nil)
		case "includeIfExists":
			execute(fmt.Sprintf(`[{{includeIfExists(%q)}}]`, name), nil)
		}
		for _, cc := range c.ctrace[ct0:] {
			c.checkPath(cc.Seam, cc.Path)
		}
		res := "ok"
		if err != nil {
			res = "err"
		}
		hist = append(hist, fmt.Sprintf("%s(%q@%s)=%s", kind, name, refDir, res))
		env.Event("%s -> %s out=%q", c.curOp, res, out.String())
		env.Stat("probe:reference_kind_"+kind, 1)
		faulted := sumFired(c.loader) > firedBefore
		if faulted {
			env.Stat("fault:loader_fault_during_reference", 1)
		}
		if pc != nil && c.loader.Fired[FaultPanic] > panicsBefore {
			pc, err = nil, fmt.Errorf("the loader's panic came out of the call")
		}
		if pc != nil {
			env.Violate("no-panic", kind+":panic", "%s panicked: %v", c.curOp, pc)
			continue
		}
		if tmpl != nil && err == nil && !IsCanonical(tmpl.Name) {
			env.Violate("seam-invariant", kind+":template-name", "%s returned a template named %q", c.curOp, tmpl.Name)
		}
		if strings.Contains(out.String(), canary) {
			env.Violate("root-escape", kind+":escape-root", "%s rendered the canary file that lies outside the loader's root directory", c.curOp)
		}
		// when the expected target exists, the reference must have found it (same template under the same path)
		exists := false
		for _, p := range c15Targets[:len(c15Targets)-1] {
			for _, e := range c.exts {
				if expected+e == p {
					exists = true
				}
			}
		}
		if exists && kind != "exec" && err == nil && kind != "Parse" && !faulted {
			want := "<T:"
			if kind == "import" {
				want = "<B:"
			}
			if !strings.Contains(out.String(), want) {
				env.Violate("resolution", kind+":target-not-rendered", "%s: the canonical target exists but was not rendered: %q", c.curOp, out.String())
			}
		}
		if exists && err != nil && kind != "Parse" && !faulted {
			env.Violate("resolution", kind+":target-not-found", "%s: the canonical target exists but the reference failed: %v", c.curOp, err)
		}
	}
	env.Stat("counters:seam_paths_checked", int64(c.nSeam))
	env.Res.Nontrivial = c.nSeam > 0
	env.Res.Sig = fmt.Sprintf("%016x", sim.HashString(strings.Join(hist, ";")+fmt.Sprint(c.exts, useOS)))
	env.Res.Sample = fmt.Sprintf("extensions=%q os-loader=%v history: %s", c.exts, useOS, strings.Join(hist, " "))
}
