package jet

import (
	"bytes"
	"testing"
)

// The loader holds both "/x" and "/x.jet". With the default extension list
// ("", ".jet", ".html.jet", ".jet.html") the name "/x" must resolve to the file
// "/x" (first existing candidate). After "/x.jet" has been requested once, the
// first request for "/x" is answered from the cache entry of "/x.jet" instead.
func TestFindingC16CachedLaterExtensionShadowsEarlierFile(t *testing.T) {
	render := func(tpl *Template) string {
		var b bytes.Buffer
		if err := tpl.Execute(&b, nil, nil); err != nil {
			t.Fatal(err)
		}
		return b.String()
	}

	newSet := func() *Set {
		l := NewInMemLoader()
		l.Set("/x", "plain")
		l.Set("/x.jet", "jet")
		return NewSet(l)
	}

	// reference: a fresh Set resolves "/x" to the file "/x"
	ref, err := newSet().GetTemplate("/x")
	if err != nil {
		t.Fatal(err)
	}
	if got := render(ref); got != "plain" {
		t.Fatalf("fresh set: GetTemplate(/x) rendered %q, want %q", got, "plain")
	}

	// same loader contents, but "/x.jet" was asked for before
	s := newSet()
	if _, err := s.GetTemplate("/x.jet"); err != nil {
		t.Fatal(err)
	}
	tpl, err := s.GetTemplate("/x")
	if err != nil {
		t.Fatal(err)
	}
	if got := render(tpl); got != "plain" {
		t.Fatalf("GetTemplate(/x) after GetTemplate(/x.jet): loaded %s and rendered %q; "+
			"the first existing candidate is the file /x (%q)", tpl.Name, got, "plain")
	}
}
