package jet

import (
	"io"
	"io/ioutil"
	"strings"
	"testing"
)

// gateLoaderC16 blocks the first Open until released, so that one GetTemplate
// is parked between its cache miss and its cache Put.
type gateLoaderC16 struct {
	opens   int
	entered chan struct{}
	release chan struct{}
}

func (l *gateLoaderC16) Exists(p string) bool { return p == "/x" }

func (l *gateLoaderC16) Open(p string) (io.ReadCloser, error) {
	l.opens++ // only touched by one goroutine at a time (see the channel hand-offs below)
	if l.opens == 1 {
		close(l.entered)
		<-l.release
	}
	return ioutil.NopCloser(strings.NewReader("hello")), nil
}

func TestFindingC16ConcurrentMissReplacesRememberedTemplate(t *testing.T) {
	l := &gateLoaderC16{entered: make(chan struct{}), release: make(chan struct{})}
	s := NewSet(l)

	slow := make(chan *Template)
	go func() {
		tpl, err := s.GetTemplate("/x") // misses the cache, parks inside Open
		if err != nil {
			t.Error(err)
		}
		slow <- tpl
	}()
	<-l.entered

	// a complete, successful GetTemplate while the other one is still loading
	first, err := s.GetTemplate("/x")
	if err != nil {
		t.Fatal(err)
	}
	if again, _ := s.GetTemplate("/x"); again != first {
		t.Fatal("not even remembered before the slow call finishes")
	}

	close(l.release)
	other := <-slow // the slow call finishes and Puts its own parse result

	opens := l.opens
	again, err := s.GetTemplate("/x")
	if err != nil {
		t.Fatal(err)
	}
	if l.opens != opens {
		t.Fatal("loader touched on a hit")
	}
	if again != first {
		t.Fatalf("GetTemplate(/x) succeeded with %p and was remembered, but asking again returns %p "+
			"(the slow concurrent call's template: %v)", first, again, again == other)
	}
}
