package jet

import (
	"errors"
	"testing"
)

type findingC13FullDisk struct{}

func (findingC13FullDisk) Write(p []byte) (int, error) { return 0, errors.New("disk full") }

// The same body, rendered to a writer that rejects every write: outside try
// Execute reports the write error; inside try the body "finishes without
// error", its output does not reach the writer, and Execute returns nil.
func TestFindingC13TryDropsWriteError(t *testing.T) {
	l := NewInMemLoader()
	l.Set("/plain", `hello`)
	l.Set("/try", `{{try}}hello{{end}}`)
	s := NewSet(l)

	run := func(name string) error {
		tt, err := s.GetTemplate(name)
		if err != nil {
			t.Fatal(err)
		}
		return tt.Execute(findingC13FullDisk{}, nil, nil)
	}

	if err := run("/plain"); err == nil {
		t.Fatal("precondition: outside try the write error is reported")
	}
	if err := run("/try"); err == nil {
		t.Fatal("{{try}}hello{{end}}: the writer rejected the body's output, yet Execute returned nil - the output is lost without any error")
	}
}
