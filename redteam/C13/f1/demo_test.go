package jet

import (
	"bytes"
	"testing"
)

// A try body that SUCCEEDS, but inside which isset() swallowed the failure of
// an exec'd template, leaves the interpreter with the context and the scope of
// the failed template: after {{end}} '.' and 'v' are no longer what they were
// before {{try}}.
func TestFindingC13IssetSwallowedFailureSurvivesTry(t *testing.T) {
	l := NewInMemLoader()
	// fails three levels deep: below a let scope, two if-let scopes and a range
	l.Set("/x", `{{v := "inner"}}{{if w := 1; true}}{{if z := 2; true}}{{range ints(7,8)}}{{nosuch}}{{end}}{{end}}{{end}}`)
	l.Set("/m", `{{v := "outer"}}[{{v}}|{{.}}]{{try}}{{isset(exec("/x")[0])}}{{end}}[{{v}}|{{.}}]`)
	s := NewSet(l)

	tt, err := s.GetTemplate("/m")
	if err != nil {
		t.Fatal(err)
	}
	var b bytes.Buffer
	if err := tt.Execute(&b, nil, "ctx"); err != nil {
		t.Fatal(err)
	}
	const want = `[outer|ctx]false[outer|ctx]`
	if got := b.String(); got != want {
		t.Fatalf("context/variables differ after the try statement:\n got  %s\n want %s", got, want)
	}
}
