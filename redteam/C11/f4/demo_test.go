package jet

import (
	"bytes"
	"sync"
	"testing"
)

// Execute uses the caller's VarMap itself as the outermost variable scope, so an
// assignment in the template writes into the caller's map: executions that are handed
// the same VarMap (a shared set of helpers/defaults) see each other's assignments and,
// run concurrently, write to one Go map from several goroutines (run with -race; without
// it the Go runtime may abort with "fatal error: concurrent map writes").
func TestFindingC11ExecuteWritesCallersVarMap(t *testing.T) {
	l := NewInMemLoader()
	l.Set("/t.jet", `{{ n = n + 1 }}{{ n }}`)
	s := NewSet(l)
	tt, err := s.GetTemplate("/t.jet")
	if err != nil {
		t.Fatal(err)
	}
	exec := func(vars VarMap) string {
		var b bytes.Buffer
		if err := tt.Execute(&b, vars, nil); err != nil {
			t.Error(err)
		}
		return b.String()
	}
	alone := exec(make(VarMap).Set("n", 0)) // "1"

	shared := make(VarMap).Set("n", 0)
	var wg sync.WaitGroup
	outs := make([]string, 4)
	for g := range outs {
		wg.Add(1)
		go func(g int) {
			defer wg.Done()
			outs[g] = exec(shared)
		}(g)
	}
	wg.Wait()
	for g, out := range outs {
		if out != alone {
			t.Errorf("concurrent Execute %d printed %q; alone, with the same arguments, it prints %q", g, out, alone)
		}
	}
	if n := shared["n"].Interface(); n != 0 {
		t.Errorf("Execute changed the caller's VarMap: n is %v, was 0", n)
	}
}
