package jet

import (
	"bytes"
	"testing"
)

// schedLoaderC11f2 is an InMemLoader whose Exists("/x") hands the processor to
// the goroutine that edits the loader; it only fixes the schedule.
type schedLoaderC11f2 struct {
	*InMemLoader
	yield func(templatePath string)
}

func (l *schedLoaderC11f2) Exists(templatePath string) bool {
	ok := l.InMemLoader.Exists(templatePath)
	if ok {
		l.yield(templatePath)
	}
	return ok
}

// The loader holds /x and /x.jet. One goroutine executes {{ include "/x" }} for the
// first time while another deletes /x. Run alone, the Execute prints "plain" (before the
// Delete) or "dotjet" (after it: the name falls through to /x.jet). With the Delete
// between the Set's Exists and Open calls it returns an error instead.
func TestFindingC11DeleteBetweenExistsAndOpen(t *testing.T) {
	mem := NewInMemLoader()
	mem.Set("/x", "plain")
	mem.Set("/x.jet", "dotjet")
	mem.Set("/main.jet", `{{ include "/x" }}`)

	// what the Execute gives alone, before and after the edit
	alone := map[string]bool{}
	for _, del := range []bool{false, true} {
		m := NewInMemLoader()
		m.Set("/x", "plain")
		m.Set("/x.jet", "dotjet")
		m.Set("/main.jet", `{{ include "/x" }}`)
		if del {
			m.Delete("/x")
		}
		tt, err := NewSet(m).GetTemplate("/main.jet")
		if err != nil {
			t.Fatal(err)
		}
		var b bytes.Buffer
		if err := tt.Execute(&b, nil, nil); err != nil {
			t.Fatal(err)
		}
		alone[b.String()] = true
	}

	probed, deleted := make(chan struct{}), make(chan struct{})
	go func() { // the concurrent edit of the in-memory loader
		<-probed
		mem.Delete("/x")
		close(deleted)
	}()
	first := true
	s := NewSet(&schedLoaderC11f2{mem, func(p string) {
		if p == "/x" && first {
			first = false
			close(probed)
			<-deleted
		}
	}})
	tt, err := s.GetTemplate("/main.jet")
	if err != nil {
		t.Fatal(err)
	}
	var b bytes.Buffer
	err = tt.Execute(&b, nil, nil)
	if err != nil || !alone[b.String()] {
		t.Fatalf("concurrent Execute: output %q, error %v; alone it gives one of %v and no error", b.String(), err, alone)
	}
}
