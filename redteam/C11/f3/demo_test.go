package jet

import (
	"bytes"
	"io"
	"testing"
)

// schedLoaderC11f3 is an InMemLoader whose Open hands the processor to other
// goroutines after it has taken the file's contents; it only fixes the schedule.
type schedLoaderC11f3 struct {
	*InMemLoader
	opened func(templatePath string)
}

func (l *schedLoaderC11f3) Open(templatePath string) (io.ReadCloser, error) {
	r, err := l.InMemLoader.Open(templatePath)
	l.opened(templatePath)
	return r, err
}

// Two goroutines execute {{ include "/x.jet" }} for the first time while the loader's
// /x.jet is edited from "v1" to "v2". Serially the first load is cached and every Execute
// prints the same text. Concurrently both miss the cache, E2 loads and caches "v2", then
// E1 (which read "v1" before the edit) overwrites the cache entry with its older parse:
// the executions print v1, v2 and then v1 again.
func TestFindingC11StaleLoadOverwritesCache(t *testing.T) {
	mem := NewInMemLoader()
	mem.Set("/x.jet", "v1")
	mem.Set("/main.jet", `{{ include "/x.jet" }}`)

	e1read, release := make(chan struct{}), make(chan struct{})
	first := true
	s := NewSet(&schedLoaderC11f3{mem, func(p string) {
		if p == "/x.jet" && first {
			first = false
			close(e1read)
			<-release
		}
	}})
	tt, err := s.GetTemplate("/main.jet")
	if err != nil {
		t.Fatal(err)
	}
	exec := func() string {
		var b bytes.Buffer
		if err := tt.Execute(&b, nil, nil); err != nil {
			t.Error(err)
		}
		return b.String()
	}

	e1 := make(chan string)
	go func() { e1 <- exec() }()
	<-e1read
	mem.Set("/x.jet", "v2") // concurrent edit of the in-memory loader
	out2 := exec()          // E2, concurrent with E1
	close(release)
	out1 := <-e1
	out3 := exec() // E3, after both

	t.Logf("E1=%q E2=%q E3=%q", out1, out2, out3)
	if out1 != out2 || out2 != out3 {
		t.Fatalf("E1=%q E2=%q E3=%q: in every serial order the first load is cached and all three print the same text", out1, out2, out3)
	}
}
