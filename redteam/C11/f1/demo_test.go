package jet

import (
	"bytes"
	"testing"
	"time"
)

// A dump() call that fails while it prints the globals leaves the Set's globals
// lock read-locked for ever: the next AddGlobal never returns, and with that
// writer waiting every later Execute that resolves a global hangs as well.
func TestFindingC11DumpLeaksGlobalsLock(t *testing.T) {
	l := NewInMemLoader()
	l.Set("/dump.jet", `{{ try }}{{ dump() }}{{ catch }}{{ end }}done`)
	l.Set("/g.jet", `{{ g }}`)
	s := NewSet(l)
	s.AddGlobal("g", "G")
	s.AddGlobal("unset", nil) // a nil global is stored as the invalid reflect.Value

	// alone, both templates run to completion
	exec := func(name string) (string, error) {
		tt, err := s.GetTemplate(name)
		if err != nil {
			return "", err
		}
		var b bytes.Buffer
		err = tt.Execute(&b, nil, 1)
		return b.String(), err
	}
	if out, err := exec("/g.jet"); out != "G" || err != nil {
		t.Fatalf("/g.jet alone: %q, %v", out, err)
	}
	out, err := exec("/dump.jet")
	t.Logf("/dump.jet: %q, %v", out, err)

	// now the same operations, concurrently
	added := make(chan struct{})
	go func() { s.AddGlobal("h", 1); close(added) }()
	select {
	case <-added:
	case <-time.After(2 * time.Second):
		t.Errorf("AddGlobal is still blocked 2s after the Execute that called dump() returned")
	}

	type res struct {
		out string
		err error
	}
	executed := make(chan res, 1)
	go func() { o, e := exec("/g.jet"); executed <- res{o, e} }()
	select {
	case r := <-executed:
		if r.out != "G" || r.err != nil {
			t.Errorf("/g.jet: %q, %v; alone it gives \"G\", <nil>", r.out, r.err)
		}
	case <-time.After(2 * time.Second):
		t.Errorf("Execute of {{ g }} is blocked (alone it prints \"G\"): the pending AddGlobal keeps new readers out")
	}
}
