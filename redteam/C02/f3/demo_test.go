package jet

import "testing"

// {{try}}A{{catch}}B{{end}} is a complete try/catch and needs exactly one
// {{end}}. Inserting a surplus {{end}} in front of the {{catch}} is accepted
// without any error, because a {{catch}} is parsed as a free-standing action
// wherever it occurs and swallows the list up to the next {{end}}.
func TestFindingC02SurplusEndBeforeCatchAccepted(t *testing.T) {
	s := NewSet(NewInMemLoader())

	// controls: the well-formed template parses, a surplus {{end}} elsewhere is reported
	if _, err := s.Parse("/ok.jet", "{{try}}A{{catch}}B{{end}}"); err != nil {
		t.Fatalf("well-formed try/catch rejected: %v", err)
	}
	if _, err := s.Parse("/ctl.jet", "{{try}}A{{catch}}B{{end}}{{end}}"); err == nil {
		t.Fatalf("control: surplus {{end}} at the end not reported")
	}

	for _, src := range []string{
		"{{try}}A{{end}}{{catch}}B{{end}}", // one {{end}} too many
		"A{{catch}}B{{end}}",               // an {{end}} (and a catch) with nothing to close
	} {
		if tpl, err := s.Parse("/t.jet", src); err == nil {
			t.Errorf("surplus {{end}} silently accepted: %q parsed as %q", src, tpl.String())
		}
	}
}
