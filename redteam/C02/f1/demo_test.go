package jet

import (
	"os"
	"os/exec"
	"strings"
	"testing"
)

// A template source that is nothing but a deeply nested expression makes
// Set.Parse recurse once per nesting level without any bound. With about a
// million levels (a 1.2 MB source) the goroutine stack passes Go's 1 GB limit
// and the runtime kills the whole process with "fatal error: stack overflow",
// which no recover() - neither the library's nor the caller's - can stop.
//
// The parse runs in a child process (the test binary re-executed) so that the
// crash can be observed and reported; the child needs ~1.5 GB of memory for a
// few seconds.
func TestFindingC02DeepNestingStackOverflow(t *testing.T) {
	const n = 1200000
	if os.Getenv("JET_C02_F1_CHILD") == "1" {
		src := "{{" + strings.Repeat("!", n) + "x}}" // "{{" + strings.Repeat("(", n) + "1" + strings.Repeat(")", n) + "}}" does the same
		_, err := NewSet(NewInMemLoader()).Parse("/deep.jet", src)
		// either outcome (template or error) would satisfy the property
		os.Stdout.WriteString("PARSE RETURNED\n")
		_ = err
		return
	}
	cmd := exec.Command(os.Args[0], "-test.run=^TestFindingC02DeepNestingStackOverflow$")
	cmd.Env = append(os.Environ(), "JET_C02_F1_CHILD=1")
	out, err := cmd.CombinedOutput()
	if err != nil || !strings.Contains(string(out), "PARSE RETURNED") {
		head := string(out)
		if len(head) > 600 {
			head = head[:600] + "..."
		}
		t.Fatalf("Set.Parse of %d nested '!' operators did not return, the process died (%v):\n%s", n, err, head)
	}
}
