package jet

import (
	"strings"
	"testing"
)

// A '%' in the name of a template (here a file that the loader serves) is
// pasted into a format string by Template.errorf, so the syntax error that
// comes back neither names the template nor carries an intact message.
func TestFindingC02PercentInTemplateNameGarblesSyntaxError(t *testing.T) {
	l := NewInMemLoader()
	l.Set("/main.jet", `{{extends "sale-50%off.jet"}}`)
	l.Set("/sale-50%off.jet", "first line\n{{ if }}")
	_, err := NewSet(l).GetTemplate("/main.jet")
	if err == nil {
		t.Fatal("expected a syntax error")
	}
	if !strings.Contains(err.Error(), "/sale-50%off.jet:2:") {
		t.Errorf("the syntax error does not name the template /sale-50%%off.jet and its line 2:\n  %v", err)
	}
	if strings.Contains(err.Error(), "MISSING") || strings.Contains(err.Error(), "%!") {
		t.Errorf("the error message is a corrupted format string:\n  %v", err)
	}
}
