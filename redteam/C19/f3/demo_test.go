// NOTE: package jet_test (not jet): an in-package test cannot import loaders/embedfs
// ("import cycle not allowed in test"). Copy next to loader.go (the file embedded below)
// and run with `go test .`.
package jet_test

import (
	"embed"
	"io"
	"testing"

	"github.com/CloudyKit/jet/v6/loaders/embedfs"
)

//go:embed loader.go
var findingC19FS embed.FS

// An embed.FS has no directory above its root; the natural spellings of "serve the whole
// embed.FS" are "", "/" and ".". Only "." works: with "" or "/" every lookup is turned into
// a rooted path ("/loader.go"), which embed.FS rejects as invalid, so the loader reports
// no file at all.
func TestFindingC19EmbedRootReportsNothing(t *testing.T) {
	want, err := findingC19FS.ReadFile("loader.go")
	if err != nil {
		t.Fatal(err)
	}
	for _, root := range []string{".", "", "/"} {
		l := embedfs.NewLoader(root, findingC19FS)
		if !l.Exists("/loader.go") {
			t.Errorf("root %q: Exists(/loader.go) = false, but loader.go is a regular file at the root of the embed.FS", root)
			continue
		}
		rc, err := l.Open("/loader.go")
		if err != nil {
			t.Errorf("root %q: Open(/loader.go): %v", root, err)
			continue
		}
		got, _ := io.ReadAll(rc)
		rc.Close()
		if string(got) != string(want) {
			t.Errorf("root %q: wrong content", root)
		}
	}
}
