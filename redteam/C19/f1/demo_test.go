// NOTE: package jet_test (not jet): an in-package test cannot import loaders/multi
// ("import cycle not allowed in test"). Copy next to loader.go and run with `go test .`.
package jet_test

import (
	"io"
	"testing"

	"github.com/CloudyKit/jet/v6"
	"github.com/CloudyKit/jet/v6/loaders/multi"
)

// Two stacks built from one common list; each then gets its own extra loader.
// multi.NewLoader keeps the caller's slice, so the second AddLoaders overwrites
// the loader the first stack had added.
func TestFindingC19MultiSharesCallerSlice(t *testing.T) {
	common1, common2, common3 := jet.NewInMemLoader(), jet.NewInMemLoader(), jet.NewInMemLoader()
	var common []jet.Loader
	common = append(common, common1)
	common = append(common, common2)
	common = append(common, common3) // len 3, cap 4: the usual result of appending

	siteA := jet.NewInMemLoader()
	siteA.Set("/page.jet", "site A")
	siteB := jet.NewInMemLoader()
	siteB.Set("/other.jet", "site B")

	stackA := multi.NewLoader(common...)
	stackA.AddLoaders(siteA) // construction order of stackA: common1, common2, common3, siteA

	if !stackA.Exists("/page.jet") {
		t.Fatal("setup: stackA must see /page.jet through siteA")
	}

	stackB := multi.NewLoader(common...)
	stackB.AddLoaders(siteB) // must not affect stackA

	if !stackA.Exists("/page.jet") {
		t.Errorf("stackA.Exists(/page.jet) = false after a loader was added to ANOTHER stack; siteA (4th loader of stackA) has it")
	}
	rc, err := stackA.Open("/page.jet")
	if err != nil {
		t.Fatalf("stackA.Open(/page.jet): %v; want content %q from siteA", err, "site A")
	}
	defer rc.Close()
	b, _ := io.ReadAll(rc)
	if string(b) != "site A" {
		t.Errorf("stackA.Open(/page.jet) = %q, want %q", b, "site A")
	}
	if stackA.Exists("/other.jet") {
		t.Errorf("stackA answers /other.jet from siteB, a loader that was never added to stackA")
	}
}
