package jet

import (
	"io/ioutil"
	"net"
	"path/filepath"
	"testing"
)

// A unix socket below the root is not a regular file, yet Exists reports it
// (only directories are filtered out) and Open then fails.
func TestFindingC19OSLoaderReportsNonRegularFile(t *testing.T) {
	dir := t.TempDir()
	ln, err := net.Listen("unix", filepath.Join(dir, "s.jet"))
	if err != nil {
		t.Skipf("cannot create a unix socket here: %v", err)
	}
	defer ln.Close()

	l := NewOSFileSystemLoader(dir)
	if !l.Exists("/s.jet") {
		return // correct: not a regular file, so not a template
	}
	t.Errorf("Exists(/s.jet) = true for a unix socket; the loader must report exactly the regular files below its root")
	rc, err := l.Open("/s.jet")
	if err != nil {
		t.Errorf("Exists(/s.jet) = true but Open(/s.jet) fails: %v", err)
		return
	}
	defer rc.Close()
	b, err := ioutil.ReadAll(rc)
	t.Logf("Open gave %q, %v", b, err)
}
