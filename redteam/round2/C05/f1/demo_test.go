package jet

import (
	"bytes"
	"fmt"
	"testing"
)

// {{range _, v = s}} (assignment form, index discarded with '_') must render the
// body once per element, like {{range _, v := s}} does. On the unchanged library
// Execute panics with a Go runtime error (failed type assertion in executeSet).
func TestFinding2C05RangeAssignUnderscore(t *testing.T) {
	l := NewInMemLoader()
	l.Set("/t.jet", `{{v := 0}}{{range _, v = s}}[{{v}}]{{end}}`)
	tpl, err := NewSet(l).GetTemplate("/t.jet")
	if err != nil {
		t.Skipf("rejected at parse time (acceptable): %v", err)
	}
	var b bytes.Buffer
	func() {
		defer func() {
			if r := recover(); r != nil {
				err = fmt.Errorf("PANIC out of Execute: %v", r)
				t.Errorf("%v", err)
			}
		}()
		err = tpl.Execute(&b, VarMap{}.Set("s", []int{7, 8}), nil)
	}()
	if err == nil && b.String() != "[7][8]" {
		t.Errorf("got %q, want %q", b.String(), "[7][8]")
	}
}
