package jet

import (
	"bytes"
	"testing"
)

// An if / else if / else chain must render exactly one branch. A chain that is
// written with a second {{else}} is accepted by the parser, and BOTH else
// branches are rendered ("CD").
func TestFinding2C05DoubleElse(t *testing.T) {
	l := NewInMemLoader()
	l.Set("/t.jet", `{{if a}}A{{else if b}}B{{else}}C{{else}}D{{end}}`)
	tpl, err := NewSet(l).GetTemplate("/t.jet")
	if err != nil {
		return // a parse error for the second {{else}} is the expected behaviour
	}
	var b bytes.Buffer
	if err := tpl.Execute(&b, VarMap{}.Set("a", false).Set("b", false), nil); err != nil {
		return
	}
	if got := b.String(); len(got) != 1 {
		t.Errorf("if/else-if/else chain rendered %q: more than one branch (the parser accepted a second {{else}} and both else branches ran)", got)
	}
}
