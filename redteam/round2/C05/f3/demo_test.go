package jet

import (
	"bytes"
	"testing"
)

// Truthy is "anything but false, 0, the empty string and nil". A struct value
// whose fields are all zero, and an array whose elements are all zero, are none
// of these, yet {{if x}} takes the else branch for them.
func TestFinding2C05ZeroStructFalsy(t *testing.T) {
	type point struct {
		X, Y int
		Name string
	}
	l := NewInMemLoader()
	l.Set("/t.jet", `{{if x}}T{{else}}F{{end}}`)
	tpl, err := NewSet(l).GetTemplate("/t.jet")
	if err != nil {
		t.Fatal(err)
	}
	for name, x := range map[string]interface{}{
		"zero struct":         point{},
		"empty struct":        struct{}{},
		"array of zeros":      [2]int{},
		"zero-length array":   [0]string{},
		"non-zero struct":     point{X: 1}, // control: T
		"empty non-nil slice": []int{},     // control: T
	} {
		var b bytes.Buffer
		if err := tpl.Execute(&b, VarMap{}.Set("x", x), nil); err != nil {
			t.Fatal(err)
		}
		if b.String() != "T" {
			t.Errorf("%s (%#v): rendered %q, want the if branch \"T\" (value is not false, 0, \"\" or nil)", name, x, b.String())
		}
	}
}
