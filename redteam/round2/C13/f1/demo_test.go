package jet

import (
	"bytes"
	"runtime"
	"testing"
)

// executeTry decides "the body finished" from recover() == nil. That is also
// what recover() returns when the body was left by panic(nil) (this module's
// go.mod says go 1.16, so GODEBUG panicnil=1 is the default) or by
// runtime.Goexit: the half-rendered body is flushed, catch is skipped, and
// scope/context/content are not put back.
func TestFinding2C13UnfinishedBodyTakenForSuccess(t *testing.T) {
	loader := NewInMemLoader()
	// the body fails in the first iteration of the range, after "x1" was rendered
	loader.Set("/nil", `A{{try}}{{range .}}x{{.}}{{boom()}}y{{end}}{{catch}}C{{end}}[{{.}}]B`)
	loader.Set("/exit", `A{{try}}x{{exit()}}y{{catch}}C{{end}}B`)
	set := NewSet(loader)
	set.AddGlobal("boom", func() string { panic(nil) })
	set.AddGlobal("exit", func() string { runtime.Goexit(); return "" })

	// 1. a Go function called in the body panics with nil
	tpl, err := set.GetTemplate("/nil")
	if err != nil {
		t.Fatal(err)
	}
	var out bytes.Buffer
	func() {
		defer func() { recover() }() // a library that re-raises the nil panic would be fine as well
		err = tpl.Execute(&out, nil, []int{1, 2})
	}()
	// all-or-nothing: the body did not finish, so "x1" must not be there, the
	// catch body runs, and '.' is the slice again after the try statement
	if got, want := out.String(), "AC[[1 2]]B"; err == nil && got != want {
		t.Errorf("panic(nil) in the try body: rendered %q, want %q", got, want)
	}

	// 2. the goroutine is ended (runtime.Goexit, e.g. t.FailNow) inside the body
	tpl, err = set.GetTemplate("/exit")
	if err != nil {
		t.Fatal(err)
	}
	out.Reset()
	done := make(chan struct{})
	go func() {
		defer close(done)
		tpl.Execute(&out, nil, nil)
	}()
	<-done
	// nothing of the unfinished body may reach the writer
	if got := out.String(); got != "A" && got != "AC" {
		t.Errorf("Goexit in the try body: writer received %q, want %q (no output of the unfinished body)", got, "A")
	}
}
