package jet

import (
	"bytes"
	"reflect"
	"testing"
)

// gateWriter2C11f2 stops the Execute that writes through it at the text "|"
// until another goroutine has finished its own Execute.
type gateWriter2C11f2 struct {
	buf     bytes.Buffer
	reached chan struct{}
	resume  chan struct{}
}

func (w *gateWriter2C11f2) Write(p []byte) (int, error) {
	if string(p) == "|" && w.reached != nil {
		close(w.reached)
		<-w.resume
	}
	return w.buf.Write(p)
}

// Two templates are executed with the same VarMap (request-independent values a
// server passes to every Execute). /a.jet calls a Go function that declares a
// variable with Runtime.Let - the documented way to "initialise a variable in
// the current template scope". At the top level of a template that scope's map
// is the caller's VarMap itself, so the variable of one execution shows up in
// the other execution (and two such executions write one map unsynchronised).
func TestFinding2C11RuntimeLetWritesCallersVarMap(t *testing.T) {
	l := NewInMemLoader()
	l.Set("/a.jet", `{{ remember("from a") }}`)
	l.Set("/b.jet", `{{ isset(x) ? x : "unset" }}|{{ isset(x) ? x : "unset" }}`)
	s := NewSet(l)
	s.AddGlobalFunc("remember", func(a Arguments) reflect.Value {
		a.Runtime().Let("x", a.Get(0).String())
		return reflect.Value{}
	})
	ta, err := s.GetTemplate("/a.jet")
	if err != nil {
		t.Fatal(err)
	}
	tb, err := s.GetTemplate("/b.jet")
	if err != nil {
		t.Fatal(err)
	}

	// /b.jet alone
	var want bytes.Buffer
	if err := tb.Execute(&want, VarMap{}, nil); err != nil {
		t.Fatal(err)
	}

	// /b.jet while another goroutine executes /a.jet with the same VarMap
	shared := VarMap{}
	w := &gateWriter2C11f2{reached: make(chan struct{}), resume: make(chan struct{})}
	go func() {
		<-w.reached
		if err := ta.Execute(new(bytes.Buffer), shared, nil); err != nil {
			t.Error(err)
		}
		close(w.resume)
	}()
	if err := tb.Execute(w, shared, nil); err != nil {
		t.Fatal(err)
	}

	if len(shared) != 0 {
		t.Errorf("Execute wrote into the VarMap of its caller: %v", shared.SortedKeys())
	}
	if got := w.buf.String(); got != want.String() {
		t.Errorf("/b.jet alone wrote %q; concurrently with an Execute of /a.jet (same VarMap) it wrote %q", want.String(), got)
	}
}
