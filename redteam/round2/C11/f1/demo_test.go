package jet

import (
	"bytes"
	"testing"
)

// gateWriter2C11f1 stops the Execute that writes through it when the text "|"
// arrives, lets another goroutine do its work, and only then goes on.
type gateWriter2C11f1 struct {
	buf     bytes.Buffer
	reached chan struct{}
	resume  chan struct{}
}

func (w *gateWriter2C11f1) Write(p []byte) (int, error) {
	if string(p) == "|" && w.reached != nil {
		close(w.reached)
		<-w.resume
	}
	return w.buf.Write(p)
}

// The loader never changes. It holds no /a, /a.jet, /a.html.jet or /a.jet.html,
// so the name "a" cannot be resolved: includeIfExists("a") prints nothing, twice.
// While that Execute is in flight another goroutine asks the same Set for the
// unrelated name "/a.jet" (answered from the file /a.jet.jet). From then on the
// running Execute resolves "a" too - to the file /a.jet.jet, which is not one of
// its candidates.
func TestFinding2C11AliasEntryAnswersOtherName(t *testing.T) {
	l := NewInMemLoader()
	l.Set("/a.jet.jet", "A")
	l.Set("/x.jet", `{{includeIfExists("a")}}|{{includeIfExists("a")}}`)

	// run alone
	alone := NewSet(l)
	x, err := alone.GetTemplate("/x.jet")
	if err != nil {
		t.Fatal(err)
	}
	var want bytes.Buffer
	if err := x.Execute(&want, nil, nil); err != nil {
		t.Fatal(err)
	}

	// the same Execute, with a GetTemplate of another name by another goroutine in between
	s := NewSet(l)
	x, err = s.GetTemplate("/x.jet")
	if err != nil {
		t.Fatal(err)
	}
	w := &gateWriter2C11f1{reached: make(chan struct{}), resume: make(chan struct{})}
	go func() {
		<-w.reached
		if _, err := s.GetTemplate("/a.jet"); err != nil { // /a.jet + ".jet" = /a.jet.jet
			t.Error(err)
		}
		close(w.resume)
	}()
	if err := x.Execute(w, nil, nil); err != nil {
		t.Fatal(err)
	}

	if got := w.buf.String(); got != want.String() {
		t.Fatalf("Execute of /x.jet alone wrote %q; with a concurrent GetTemplate(\"/a.jet\") on the same Set (loader unchanged) it wrote %q", want.String(), got)
	}
}
