package jet

import (
	"bytes"
	"testing"
)

// The same template, the same template set, no variables, no data - but what
// /main.jet renders depends on whether /other.jet was executed before it.
func TestFinding2C10CachedAliasShadowsCandidate(t *testing.T) {
	newSet := func() *Set {
		l := NewInMemLoader()
		l.Set("/x.html.jet", "A")
		l.Set("/x.jet", "B")
		l.Set("/main.jet", `{{include "x"}}`)       // candidates: /x, /x.html, /x.jet  -> /x.jet ("B")
		l.Set("/other.jet", `{{include "x.html"}}`) // candidates: /x.html, /x.html.html, /x.html.jet -> "A"
		return NewSet(l, WithTemplateNameExtensions([]string{"", ".html", ".jet"}))
	}
	run := func(s *Set, name string) string {
		tpl, err := s.GetTemplate(name)
		if err != nil {
			t.Fatalf("GetTemplate(%s): %v", name, err)
		}
		var b bytes.Buffer
		if err := tpl.Execute(&b, nil, nil); err != nil {
			return "error: " + err.Error()
		}
		return b.String()
	}

	fresh := run(newSet(), "/main.jet") // no execution before it

	s := newSet()
	if got := run(s, "/other.jet"); got != "A" {
		t.Fatalf("/other.jet rendered %q, want %q", got, "A")
	}
	after := run(s, "/main.jet") // same set contents, /other.jet executed before

	if fresh != "B" {
		t.Fatalf("/main.jet on a fresh set rendered %q, want %q", fresh, "B")
	}
	if after != fresh {
		t.Fatalf("/main.jet rendered %q on a fresh set but %q after /other.jet had been executed: "+
			"the cache entry \"/x.html\" (an alias that /other.jet's include left behind for the file /x.html.jet) "+
			"was taken for the candidate file /x.html, which does not exist", fresh, after)
	}
}
