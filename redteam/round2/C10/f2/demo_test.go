package jet

import (
	"bytes"
	"reflect"
	"testing"
)

// Runtime.Let (and SetOrLet, which falls back on it) called in the top-most scope
// writes into the VarMap the caller passed to Execute: the variable bound during
// one execution is visible in the next one that is given the same VarMap.
func TestFinding2C10RuntimeLetWritesCallersVarMap(t *testing.T) {
	l := NewInMemLoader()
	l.Set("/bind.jet", `{{ bind() }}`)
	l.Set("/probe.jet", `{{ isset(x) ? x : "unbound" }}`)
	s := NewSet(l)

	vars := make(VarMap)
	vars.SetFunc("bind", func(a Arguments) reflect.Value {
		a.Runtime().Let("x", "bound by an earlier execution")
		return reflect.Value{}
	})
	keysBefore := len(vars)

	run := func(name string) string {
		tpl, err := s.GetTemplate(name)
		if err != nil {
			t.Fatal(err)
		}
		var b bytes.Buffer
		if err := tpl.Execute(&b, vars, nil); err != nil {
			t.Fatalf("%s: %v", name, err)
		}
		return b.String()
	}

	first := run("/probe.jet")
	run("/bind.jet")
	second := run("/probe.jet")

	if len(vars) != keysBefore {
		t.Errorf("Execute changed the caller's VarMap: %d entries before, %d after (keys %v)", keysBefore, len(vars), vars.SortedKeys())
	}
	if first != second {
		t.Errorf("/probe.jet rendered %q, and %q after /bind.jet had been executed with the same VarMap", first, second)
	}
}
