package jet

import (
	"os"
	"runtime/debug"
	"strconv"
	"strings"
	"testing"
)

// The parser recurses once per {{else if}} (parseControl -> ifControl -> parseControl ...), and this
// recursion is not counted by the nesting bound (maxParseDepth) that was added for deeply nested sources:
// the stack grows linearly with the length of the chain until the Go runtime kills the process
// ("fatal error: stack overflow" - no recover() can catch that).
//
// With the runtime's default limit (1 GB on 64-bit) about 1.56 million branches (~22 MB of source) are needed and the
// parse takes on the order of an hour before it dies (quadratic line counting), so by default this demo lowers the limit to 16 MB
// (debug.SetMaxStack), under which the properly bounded form of nesting is still reported as a clean error.
// Run with C02_DEFAULT_STACK=1 to use the default limit and 1,700,000 branches instead (very slow).
func TestFinding2C02ElseIfChainOverflowsStack(t *testing.T) {
	n := 60000
	if os.Getenv("C02_DEFAULT_STACK") == "" {
		defer debug.SetMaxStack(debug.SetMaxStack(16 << 20))
	} else {
		n = 1700000
	}
	if v, err := strconv.Atoi(os.Getenv("C02_BRANCHES")); err == nil {
		n = v
	}
	set := NewSet(NewInMemLoader())

	// control: 20000 nested {{if}} are refused with an ordinary error under the same stack limit
	nested := strings.Repeat("{{if a}}", 20000) + strings.Repeat("{{end}}", 20000)
	if _, err := set.Parse("/nested.jet", nested); err == nil || !strings.Contains(err.Error(), "nested too deeply") {
		t.Fatalf("control: want the 'nested too deeply' error, got %v", err)
	}

	// a flat chain: nothing is nested inside anything here
	src := "{{if a}}0" + strings.Repeat("{{else if a}}x", n) + "{{end}}"
	_, err := set.Parse("/chain.jet", src) // the process dies in here: "goroutine stack exceeds ...-byte limit / fatal error: stack overflow"
	t.Logf("Parse returned normally (err=%v): no violation", err)
}
