package jet

import (
	"errors"
	"fmt"
	"io"
	"sync/atomic"
	"testing"
	"time"
)

// countingLoader2C02 wraps an InMemLoader, counts Open calls and can be told to fail
// (so that the runaway parse unwinds once the test has made its point).
type countingLoader2C02 struct {
	*InMemLoader
	opens int64
	stop  int32
}

func (l *countingLoader2C02) Open(p string) (io.ReadCloser, error) {
	atomic.AddInt64(&l.opens, 1)
	if atomic.LoadInt32(&l.stop) != 0 {
		return nil, errors.New("stopped by the test")
	}
	return l.InMemLoader.Open(p)
}

// 2*layers+2 tiny templates: a<i> and b<i> both import a<i+1> and b<i+1>; the last layer is plain text.
// Every template is reachable, nothing is cyclic, nothing is malformed.
func TestFinding2C02DiamondImportsNeverFinish(t *testing.T) {
	const layers = 64
	mem := NewInMemLoader()
	for i := 0; i < layers; i++ {
		body := fmt.Sprintf(`{{import "a%d.jet"}}{{import "b%d.jet"}}`, i+1, i+1)
		mem.Set(fmt.Sprintf("/a%d.jet", i), body)
		mem.Set(fmt.Sprintf("/b%d.jet", i), body)
	}
	mem.Set(fmt.Sprintf("/a%d.jet", layers), "leaf a")
	mem.Set(fmt.Sprintf("/b%d.jet", layers), "leaf b")
	files := 2*layers + 2

	// control: the caching path parses every file once and is done in no time
	if _, err := NewSet(mem).GetTemplate("/a0.jet"); err != nil {
		t.Fatalf("control (GetTemplate on a caching Set): %v", err)
	}

	for _, mode := range []string{"Set.Parse", "GetTemplate in development mode"} {
		l := &countingLoader2C02{InMemLoader: mem}
		done := make(chan error, 1)
		go func() {
			var err error
			if mode == "Set.Parse" {
				_, err = NewSet(l).Parse("/main.jet", `{{import "a0.jet"}}hello`)
			} else {
				_, err = NewSet(l, InDevelopmentMode()).GetTemplate("/a0.jet")
			}
			done <- err
		}()
		select {
		case err := <-done:
			t.Logf("%s returned (err=%v) after opening %d files", mode, err, atomic.LoadInt64(&l.opens))
		case <-time.After(5 * time.Second):
			opens := atomic.LoadInt64(&l.opens)
			atomic.StoreInt32(&l.stop, 1) // let the parse unwind
			<-done
			t.Errorf("%s: still running after 5s over a set of %d small acyclic templates; the loader was asked to open a file %d times (2^%d+ loads are needed to finish: it never will)",
				mode, files, opens, layers)
		}
	}
}
