// package jet_test, not jet: loaders/httpfs imports jet, so an in-package test cannot import it.
package jet_test

import (
	"net/http"
	"os"
	"path/filepath"
	"syscall"
	"testing"
	"time"

	"github.com/CloudyKit/jet/v6"
	"github.com/CloudyKit/jet/v6/loaders/httpfs"
)

func TestFinding2C19HTTPFSReportsNonRegularFile(t *testing.T) {
	dir := t.TempDir()
	pipe := filepath.Join(dir, "pipe.jet")
	if err := syscall.Mkfifo(pipe, 0644); err != nil {
		t.Skipf("mkfifo: %v", err)
	}
	// keep both ends open so that opening the pipe for reading does not block
	// (without this the call to Exists below never returns at all)
	keep, err := os.OpenFile(pipe, os.O_RDWR, 0)
	if err != nil {
		t.Fatal(err)
	}
	defer keep.Close()

	l, err := httpfs.NewLoader(http.Dir(dir))
	if err != nil {
		t.Fatal(err)
	}

	// the repaired OS loader over the same root, for comparison
	if jet.NewOSFileSystemLoader(dir).Exists("/pipe.jet") {
		t.Fatal("OS loader reports the pipe")
	}

	done := make(chan bool, 1)
	go func() { done <- l.Exists("/pipe.jet") }()
	select {
	case exists := <-done:
		if exists {
			t.Fatalf("httpfs loader: Exists(/pipe.jet) = true for a named pipe below the root; only regular files are templates")
		}
	case <-time.After(5 * time.Second):
		t.Fatal("httpfs loader: Exists(/pipe.jet) blocked on a named pipe")
	}
}
