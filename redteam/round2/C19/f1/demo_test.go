// package jet_test, not jet: loaders/multi imports jet, so an in-package test cannot import it.
package jet_test

import (
	"errors"
	"io"
	"io/ioutil"
	"testing"

	"github.com/CloudyKit/jet/v6"
	"github.com/CloudyKit/jet/v6/loaders/multi"
)

// failOnceLoader has every path its InMemLoader has (Exists is untouched);
// its first Open fails the way an OS/http loader fails on EMFILE or EIO.
type failOnceLoader struct {
	*jet.InMemLoader
	failed bool
}

func (l *failOnceLoader) Open(p string) (io.ReadCloser, error) {
	if !l.failed {
		l.failed = true
		return nil, errors.New("open " + p + ": too many open files")
	}
	return l.InMemLoader.Open(p)
}

func TestFinding2C19MultiFallsThroughOnOpenError(t *testing.T) {
	first := &failOnceLoader{InMemLoader: jet.NewInMemLoader()}
	first.Set("/page.jet", "FIRST")
	second := jet.NewInMemLoader()
	second.Set("/page.jet", "SECOND") // shadowed by the first loader

	m := multi.NewLoader(first, second)

	if !first.Exists("/page.jet") {
		t.Fatal("setup: the first loader has the path")
	}
	f, err := m.Open("/page.jet")
	if err != nil {
		return // fine: the first loader has the path and could not open it - an error is an honest answer
	}
	got, _ := ioutil.ReadAll(f)
	if string(got) != "FIRST" {
		t.Fatalf("multi.Open(/page.jet) = %q, <nil>: answered from the second loader although the first loader has the path (first.Exists=%v); want \"FIRST\" or the first loader's error",
			got, first.Exists("/page.jet"))
	}
}
