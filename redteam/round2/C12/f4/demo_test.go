package jet

import (
	"bytes"
	"strings"
	"testing"
)

type finding2C12Inner struct{ X int }

// the pointer is embedded: X is a (promoted) field of finding2C12Outer
type finding2C12Outer struct{ *finding2C12Inner }

// A field that cannot be reached because it is promoted through a nil embedded
// pointer: Execute panics with a string ("reflect: indirection through nil
// pointer to embedded struct") instead of returning an error for "/t.jet":3.
// (The spelled-out form {{ .Inner.X }} with a nil Inner is reported properly:
// "nil pointer evaluating *Inner.X".)
func TestFinding2C12FieldThroughNilEmbeddedPointer(t *testing.T) {
	loader := NewInMemLoader()
	loader.Set("/t.jet", "line1\nline2\n{{ .X }}\nafter")
	tpl, err := NewSet(loader).GetTemplate("/t.jet")
	if err != nil {
		t.Fatal(err)
	}

	var buf bytes.Buffer
	var execErr error
	func() {
		defer func() {
			if r := recover(); r != nil {
				t.Fatalf("Execute panicked (%T) instead of returning an error: %v", r, r)
			}
		}()
		execErr = tpl.Execute(&buf, nil, finding2C12Outer{})
	}()
	if execErr == nil {
		t.Fatalf("Execute returned a nil error; output %q", buf.String())
	}
	if !strings.Contains(execErr.Error(), `("/t.jet":3)`) {
		t.Fatalf("error does not name file and line: %v", execErr)
	}
	if buf.String() != "line1\nline2\n" {
		t.Fatalf("output = %q", buf.String())
	}
}
