package jet

import (
	"bytes"
	"strings"
	"testing"
)

// A slice piped into a variadic function (func(...int) int) is an argument of
// the wrong kind: a Go call would need "xs...". Jet compares the piped value
// with the type of the variadic parameter itself ([]int) instead of its element
// type, accepts it, and reflect.Value.Call panics with a string
// ("reflect: cannot use []int as type int in Call") that leaves Execute.
func TestFinding2C12PipedSliceIntoVariadic(t *testing.T) {
	loader := NewInMemLoader()
	loader.Set("/t.jet", "line1\nline2\n{{ xs | sum }}\nafter")
	tpl, err := NewSet(loader).GetTemplate("/t.jet")
	if err != nil {
		t.Fatal(err)
	}
	vars := make(VarMap)
	vars.Set("xs", []int{1, 2, 3})
	vars.Set("sum", func(xs ...int) int {
		s := 0
		for _, x := range xs {
			s += x
		}
		return s
	})

	var buf bytes.Buffer
	var execErr error
	func() {
		defer func() {
			if r := recover(); r != nil {
				t.Fatalf("Execute panicked (%T) instead of returning an error: %v", r, r)
			}
		}()
		execErr = tpl.Execute(&buf, vars, nil)
	}()
	if execErr == nil {
		t.Fatalf("Execute returned a nil error; output %q", buf.String())
	}
	if !strings.Contains(execErr.Error(), `("/t.jet":3)`) {
		t.Fatalf("error does not name file and line: %v", execErr)
	}
	if buf.String() != "line1\nline2\n" {
		t.Fatalf("output = %q", buf.String())
	}
}
