package jet

import (
	"bytes"
	"reflect"
	"strings"
	"testing"
)

// An unknown block and an unknown identifier, detected by Jet itself through the
// Runtime API that a jet.Func is handed (Arguments.Runtime().YieldBlock /
// MustResolve), come back from Execute without the file and line of the failing
// action (errors raised with Arguments.Panicf do carry them).
func TestFinding2C12RuntimeAPIErrorsWithoutPosition(t *testing.T) {
	loader := NewInMemLoader()
	loader.Set("/yield.jet", "line1\nline2\n{{ yieldBlock(\"nosuch\") }}\nafter")
	loader.Set("/resolve.jet", "line1\nline2\n{{ mustResolve(\"nosuch\") }}\nafter")
	set := NewSet(loader)
	set.AddGlobalFunc("yieldBlock", func(a Arguments) reflect.Value {
		a.RequireNumOfArguments("yieldBlock", 1, 1)
		a.Runtime().YieldBlock(a.Get(0).String(), nil)
		return reflect.Value{}
	})
	set.AddGlobalFunc("mustResolve", func(a Arguments) reflect.Value {
		a.RequireNumOfArguments("mustResolve", 1, 1)
		return a.Runtime().MustResolve(a.Get(0).String())
	})

	for _, name := range []string{"/yield.jet", "/resolve.jet"} {
		tpl, err := set.GetTemplate(name)
		if err != nil {
			t.Fatal(err)
		}
		var buf bytes.Buffer
		err = tpl.Execute(&buf, nil, nil)
		if err == nil {
			t.Fatalf("%s: Execute returned a nil error; output %q", name, buf.String())
		}
		if buf.String() != "line1\nline2\n" {
			t.Errorf("%s: output = %q", name, buf.String())
		}
		if !strings.Contains(err.Error(), `("`+name+`":3)`) {
			t.Errorf("%s: error does not name file and line of the failing action: %v", name, err)
		}
	}
}
