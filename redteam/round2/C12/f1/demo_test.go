package jet

import (
	"bytes"
	"strings"
	"testing"
)

// An index of the wrong kind (a slice used as key of a map[interface{}]T) makes
// Execute panic with a runtime.Error ("hash of unhashable type []int") instead
// of returning an error that names "/t.jet":3.
func TestFinding2C12UnhashableMapKey(t *testing.T) {
	loader := NewInMemLoader()
	loader.Set("/t.jet", "line1\nline2\n{{ .M[.K] }}\nafter")
	tpl, err := NewSet(loader).GetTemplate("/t.jet")
	if err != nil {
		t.Fatal(err)
	}
	data := struct {
		M map[interface{}]string
		K []int
	}{M: map[interface{}]string{"a": "x"}, K: []int{1}}

	var buf bytes.Buffer
	var execErr error
	func() {
		defer func() {
			if r := recover(); r != nil {
				t.Fatalf("Execute panicked (%T) instead of returning an error: %v", r, r)
			}
		}()
		execErr = tpl.Execute(&buf, nil, data)
	}()
	if execErr == nil {
		t.Fatalf("Execute returned a nil error; output %q", buf.String())
	}
	if !strings.Contains(execErr.Error(), `("/t.jet":3)`) {
		t.Fatalf("error does not name file and line: %v", execErr)
	}
	if buf.String() != "line1\nline2\n" {
		t.Fatalf("output = %q", buf.String())
	}
}
