package jet

import (
	"bytes"
	"testing"
)

// The cache is keyed by REQUESTED names (GetTemplate("/a.jet") stores whatever file it resolved to
// under "/a.jet"), but getTemplate probes it with the FILE candidates of another name ("/a" + ".jet").
// So a template loaded from a file that is no candidate of "/a" at all is returned for "/a",
// although an existing candidate file of "/a" is there - with no loader edit anywhere in the history.
func TestFinding2C16RequestedNameEntryAnsweredAsFileCandidate(t *testing.T) {
	l := NewInMemLoader()
	l.Set("/a.jet.jet", "from a.jet.jet")   // candidate of the name "/a.jet" only
	l.Set("/a.html.jet", "from a.html.jet") // candidate of the name "/a" (3rd default extension)

	// reference: what "/a" resolves to on a Set without history
	fresh, err := NewSet(l).GetTemplate("/a")
	if err != nil || fresh.Name != "/a.html.jet" {
		t.Fatalf("fresh set: %v, %v", fresh, err)
	}

	s := NewSet(l) // default extensions: "", ".jet", ".html.jet", ".jet.html"
	if first, err := s.GetTemplate("/a.jet"); err != nil || first.Name != "/a.jet.jet" {
		t.Fatalf(`GetTemplate("/a.jet"): %v, %v`, first, err)
	}
	got, err := s.GetTemplate("/a")
	if err != nil {
		t.Fatal(err)
	}
	var out bytes.Buffer
	_ = got.Execute(&out, nil, nil)
	// candidates of "/a": /a, /a.jet, /a.html.jet, /a.jet.html - the only existing one is /a.html.jet
	if got.Name != "/a.html.jet" {
		t.Errorf(`GetTemplate("/a") after GetTemplate("/a.jet") returned the template of file %s (%q), want the first existing candidate /a.html.jet (no loader edit happened; a fresh Set returns %s)`,
			got.Name, out.String(), fresh.Name)
	}

	// same cause, other symptom: no candidate of "/b" exists, the lookup must fail - it succeeds
	l.Set("/b.jet.jet", "from b.jet.jet")
	s2 := NewSet(l)
	if _, err := s2.GetTemplate("/b.jet"); err != nil {
		t.Fatal(err)
	}
	if tb, err := s2.GetTemplate("/b"); err == nil {
		t.Errorf(`GetTemplate("/b") succeeded with the template of file %s although none of /b, /b.jet, /b.html.jet, /b.jet.html exists`, tb.Name)
	}
}
