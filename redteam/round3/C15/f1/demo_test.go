package jet

import (
	"bytes"
	"testing"
)

// a template name computed at run time: a fmt.Stringer, which executeInclude accepts as a name
type finding3C15Name struct{ rel string }

func (n finding3C15Name) String() string { return n.rel }

func TestFinding3C15IncludeStringerName(t *testing.T) {
	l := NewInMemLoader()
	l.Set("/a/b/main.jet", `{{include .}}`)
	l.Set("/a/x.jet", `AX`)
	set := NewSet(l)
	main, err := set.GetTemplate("/a/b/main.jet")
	if err != nil {
		t.Fatal(err)
	}

	// control: the plain string "../x" resolves against /a/b and finds /a/x.jet
	var buf bytes.Buffer
	if err := main.Execute(&buf, nil, "../x"); err != nil || buf.String() != "AX" {
		t.Fatalf("control failed: %q, %v", buf.String(), err)
	}

	// the same name, supplied as a fmt.Stringer
	buf.Reset()
	err = main.Execute(&buf, nil, finding3C15Name{"../x"})
	if err != nil || buf.String() != "AX" {
		t.Fatalf("include of the Stringer name \"../x\" from /a/b/main.jet must request /a/x(.jet); got output %q, error: %v", buf.String(), err)
	}
}
