package jet

import (
	"bytes"
	"fmt"
	"reflect"
	"testing"
)

// A send-only channel has no receivable elements and is not rangeable (Go
// rejects "range" over it at compile time). Every other non-rangeable value
// ({{range 3}}, {{range "abc"}}, a nil pointer) makes Execute return an error;
// a send-only channel makes Execute panic instead.
func TestFinding3C05SendOnlyChannelPanicsOutOfExecute(t *testing.T) {
	set := NewSet(NewInMemLoader())
	tpl, err := set.Parse("/t.jet", `{{range c}}[{{.}}]{{else}}empty{{end}}`)
	if err != nil {
		t.Fatal(err)
	}
	c := make(chan<- int, 1)

	var out bytes.Buffer
	var execErr error
	var panicked interface{}
	func() {
		defer func() { panicked = recover() }()
		execErr = tpl.Execute(&out, VarMap{"c": reflect.ValueOf(c)}, nil)
	}()

	if panicked != nil {
		t.Fatalf("Execute panicked instead of returning an error: %v", fmt.Sprint(panicked))
	}
	if execErr == nil && out.String() != "empty" {
		t.Fatalf("no error, and neither the else branch: %q", out.String())
	}
}
