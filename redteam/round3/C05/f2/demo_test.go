package jet

import (
	"bytes"
	"reflect"
	"testing"
)

// The body of a range over a channel is rendered for the first element and
// returns. Exactly one element has been rendered, so exactly one element may
// have been taken from the channel (as with Go's "for v := range c { return v }").
// The range loop receives a second element before it looks at the return value
// and throws it away: an element for which the body never ran is gone from the
// channel (and if the channel had been empty and open, Execute would block).
func TestFinding3C05ReturnInRangeSwallowsNextElement(t *testing.T) {
	set := NewSet(NewInMemLoader())
	tpl, err := set.Parse("/t.jet", `{{range c}}[{{.}}]{{return .}}{{end}}`)
	if err != nil {
		t.Fatal(err)
	}
	c := make(chan string, 2)
	c <- "first"
	c <- "second"

	var out bytes.Buffer
	if err := tpl.Execute(&out, VarMap{"c": reflect.ValueOf(c)}, nil); err != nil {
		t.Fatal(err)
	}
	if out.String() != "[first]" {
		t.Fatalf("rendered %q, want %q", out.String(), "[first]")
	}
	if n := len(c); n != 1 {
		t.Fatalf("the body ran for 1 element but %d were received from the channel (%d left of 2): "+
			"the element after the one that returned was received and dropped", 2-n, n)
	}
}
