package jet

import (
	"io/ioutil"
	"strings"
	"testing"
)

// A chain of binary operators is parsed by a loop (additiveExpression & co.), so it never
// passes through the parser's nesting bound (maxParseDepth, commit 80673f6) - but every
// operator adds one level to a left-nested tree. Set.Parse accepts a chain of a million
// terms without an error, and the template it returns cannot be used: Execute recurses
// once per level, the goroutine stack passes the runtime's 1 GB limit and the process dies
// with "fatal error: stack overflow" (not a panic: no recover() catches it).
//
// On the unchanged library this test does not report a failure in the usual way: the test
// binary is killed ("fatal error: stack overflow", exit status 2, FAIL). It passes as soon as
// Parse returns an error for the chain, or returns a template that Execute can run.
// (Run time about 75 s, nearly all of it inside Parse: see README.)
func TestFinding3C02OperatorChainEscapesNestingBound(t *testing.T) {
	const terms = 1000000 // 2 MB of source on one line
	src := "{{ 1" + strings.Repeat("+1", terms) + " }}"

	set := NewSet(NewInMemLoader())
	tpl, err := set.Parse("/chain.jet", src)
	if err != nil {
		t.Logf("rejected (fine): %.120s", err.Error())
		return
	}
	// "a usable template": using it must not end the process
	if err := tpl.Execute(ioutil.Discard, nil, nil); err != nil {
		t.Logf("Execute returned an error (fine): %.120s", err.Error())
	}
}
