package jet

import (
	"bytes"
	"runtime/debug"
	"testing"
)

// The same template, executed twice with the same (nil) variables and the same
// (nil) data on the same Set, must fail with the same error. It does not: the
// message of a failed assignment formats the value that was to be assigned,
// and that value holds a pointer allocated during the execution, so the text
// carries a heap address that depends on everything allocated before.
func TestFinding3C10AssignErrorCarriesHeapAddress(t *testing.T) {
	// no collection between the two runs, so the allocator cannot hand out the same slot twice
	defer debug.SetGCPercent(debug.SetGCPercent(-1))

	loader := NewInMemLoader()
	loader.Set("/t.jet", `{{ x = map("k", ints(0, 3)) }}`) // x was never declared: the assignment fails
	tmpl, err := NewSet(loader).GetTemplate("/t.jet")
	if err != nil {
		t.Fatal(err)
	}

	run := func() string {
		var out bytes.Buffer
		err := tmpl.Execute(&out, nil, nil)
		if err == nil {
			t.Fatal("expected the assignment to an undeclared variable to fail")
		}
		return err.Error()
	}

	first, second := run(), run()
	if first != second {
		t.Fatalf("same template, variables and data, different errors:\n 1st: %s\n 2nd: %s", first, second)
	}
}
