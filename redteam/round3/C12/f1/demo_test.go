package jet

import (
	"bytes"
	"strings"
	"testing"
)

// A SafeWriter that is nil is a call target like any other nil function value:
// using it must end in an error from Execute that names file and line.
func TestFinding3C12NilSafeWriter(t *testing.T) {
	for _, action := range []string{`{{ w: "x" }}`, `{{ "x" | w }}`, `{{ w("x") }}`} {
		set := NewSet(NewInMemLoader())
		tpl, err := set.Parse("/t.jet", "a\nb\n"+action+"\nafter")
		if err != nil {
			t.Fatal(err)
		}
		vars := make(VarMap).SetWriter("w", nil) // a SafeWriter variable that was never filled in

		var out bytes.Buffer
		var panicked interface{}
		func() {
			defer func() { panicked = recover() }()
			err = tpl.Execute(&out, vars, nil)
		}()
		if panicked != nil {
			t.Errorf("%s: Execute panicked instead of returning an error: (%T) %v", action, panicked, panicked)
			continue
		}
		if err == nil || !strings.Contains(err.Error(), `"/t.jet":3`) {
			t.Errorf("%s: want an error naming \"/t.jet\":3, got %v", action, err)
		}
		if out.String() != "a\nb\n" {
			t.Errorf("%s: output %q, want %q", action, out.String(), "a\nb\n")
		}
	}
}
