package jet

import (
	"bytes"
	"strings"
	"testing"
)

type f3c12Item struct{ Name string }

// Title has a value receiver: it cannot be called through a nil *f3c12Item.
func (i f3c12Item) Title() string { return strings.ToUpper(i.Name) }

// .P.Name on the nil pointer is reported ("nil pointer evaluating ...", with file and line);
// .P.Title() on the same nil pointer must be reported the same way, not panic out of Execute.
func TestFinding3C12ValueMethodOnNilPointer(t *testing.T) {
	data := struct{ P *f3c12Item }{}

	set := NewSet(NewInMemLoader())
	tpl, err := set.Parse("/t.jet", "a\nb\n{{ .P.Title() }}\nafter")
	if err != nil {
		t.Fatal(err)
	}

	var out bytes.Buffer
	var panicked interface{}
	func() {
		defer func() { panicked = recover() }()
		err = tpl.Execute(&out, nil, data)
	}()
	if panicked != nil {
		t.Fatalf("Execute panicked instead of returning an error: (%T) %v", panicked, panicked)
	}
	if err == nil || !strings.Contains(err.Error(), `"/t.jet":3`) {
		t.Fatalf("want an error naming \"/t.jet\":3, got %v", err)
	}
	if out.String() != "a\nb\n" {
		t.Fatalf("output %q, want %q", out.String(), "a\nb\n")
	}
}
