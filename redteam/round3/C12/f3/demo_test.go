package jet

import (
	"bytes"
	"strings"
	"testing"
)

type f3c12Key struct{ ID interface{} }

// A key whose static type is comparable but which holds an unhashable value in an
// interface field cannot be hashed either: indexing a map with it must be an error
// with file and line (as it is for a slice key since 260b239), not a runtime panic.
func TestFinding3C12UnhashableNestedKey(t *testing.T) {
	vars := make(VarMap)
	vars.Set("m", map[interface{}]string{"k": "v"})
	vars.Set("k", f3c12Key{ID: []int{1}})

	set := NewSet(NewInMemLoader())
	tpl, err := set.Parse("/t.jet", "a\nb\n{{ m[k] }}\nafter")
	if err != nil {
		t.Fatal(err)
	}

	var out bytes.Buffer
	var panicked interface{}
	func() {
		defer func() { panicked = recover() }()
		err = tpl.Execute(&out, vars, nil)
	}()
	if panicked != nil {
		t.Fatalf("Execute panicked instead of returning an error: (%T) %v", panicked, panicked)
	}
	if err == nil || !strings.Contains(err.Error(), `"/t.jet":3`) {
		t.Fatalf("want an error naming \"/t.jet\":3, got %v", err)
	}
	if out.String() != "a\nb\n" {
		t.Fatalf("output %q, want %q", out.String(), "a\nb\n")
	}
}
