package jet_test

import (
	"net/http"
	"os"
	"path/filepath"
	"syscall"
	"testing"
	"time"

	"github.com/CloudyKit/jet/v6"
	"github.com/CloudyKit/jet/v6/loaders/httpfs"
)

// A named pipe below the root of an http.Dir is not a regular file, so the httpfs loader has to
// answer Exists == false for it (as the OS loader does). Instead Exists never answers: it opens
// the entry before it looks at its mode, and opening a pipe for reading blocks until a writer shows up.
func TestFinding3C19HttpfsExistsBlocksOnPipe(t *testing.T) {
	root := t.TempDir()
	pipe := filepath.Join(root, "page.jet")
	if err := syscall.Mkfifo(pipe, 0644); err != nil {
		t.Skipf("cannot create a named pipe here: %v", err)
	}

	// reference: the OS loader over the same directory answers at once
	if jet.NewOSFileSystemLoader(root).Exists("/page.jet") {
		t.Fatalf("OS loader: a pipe must not exist as a template")
	}

	l, err := httpfs.NewLoader(http.Dir(root))
	if err != nil {
		t.Fatal(err)
	}
	answer := make(chan bool, 1)
	go func() { answer <- l.Exists("/page.jet") }()

	select {
	case got := <-answer:
		if got {
			t.Fatalf("httpfs: Exists(/page.jet) = true for a named pipe, want false")
		}
	case <-time.After(3 * time.Second):
		t.Errorf("httpfs: Exists(/page.jet) on a named pipe has not answered after 3s (blocked in Open); want false at once")
		// let the blocked goroutine go: give the pipe a writer for a moment
		if w, err := os.OpenFile(pipe, os.O_WRONLY|syscall.O_NONBLOCK, 0); err == nil {
			w.Close()
			<-answer
		}
	}
}
