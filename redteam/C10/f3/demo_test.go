package jet

import (
	"bytes"
	"testing"
)

// Ranging over a map visits the entries in Go's randomised map order, so the
// same template with the same data renders different bytes from one execution
// to the next.
func TestFindingC10MapRangeOrderNotReproducible(t *testing.T) {
	l := NewInMemLoader()
	l.Set("/t.jet", `{{range k, v := .}}{{k}}{{end}}`)
	s := NewSet(l)
	tpl, err := s.GetTemplate("/t.jet")
	if err != nil {
		t.Fatal(err)
	}
	data := map[string]int{"a": 1, "b": 2, "c": 3, "d": 4, "e": 5, "f": 6, "g": 7, "h": 8}

	var first string
	for i := 0; i < 64; i++ {
		var b bytes.Buffer
		if err := tpl.Execute(&b, nil, data); err != nil {
			t.Fatal(err)
		}
		if i == 0 {
			first = b.String()
		} else if b.String() != first {
			t.Fatalf("execution %d rendered %q, execution 0 rendered %q (same template, variables and data)", i, b.String(), first)
		}
	}
}
