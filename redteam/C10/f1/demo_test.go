package jet

import (
	"bytes"
	"testing"
)

// Executing /t1.jet (which includes "/a.jet") before /t2.jet (which includes "/a")
// changes what /t2.jet renders: the earlier execution left "/a.jet" in the Set's
// cache, and the cache is probed with all extensions before the loader is asked
// for the exact name "/a".
func TestFindingC10IncludeDependsOnEarlierExecution(t *testing.T) {
	newSet := func() *Set {
		l := NewInMemLoader()
		l.Set("/a", "PLAIN")      // exact name: first in the documented lookup order
		l.Set("/a.jet", "DOTJET") // same name + ".jet"
		l.Set("/t1.jet", `{{include "/a.jet"}}`)
		l.Set("/t2.jet", `{{include "/a"}}`)
		return NewSet(l)
	}
	run := func(s *Set, name string) string {
		tpl, err := s.GetTemplate(name)
		if err != nil {
			t.Fatalf("GetTemplate(%s): %v", name, err)
		}
		var b bytes.Buffer
		if err := tpl.Execute(&b, nil, nil); err != nil {
			t.Fatalf("Execute(%s): %v", name, err)
		}
		return b.String()
	}

	alone := run(newSet(), "/t2.jet") // no earlier execution

	s := newSet()
	if got := run(s, "/t1.jet"); got != "DOTJET" {
		t.Fatalf("/t1.jet rendered %q", got)
	}
	after := run(s, "/t2.jet") // same set contents, same (nil) variables and data

	if alone != after {
		t.Fatalf("/t2.jet rendered %q on a set where nothing ran before, but %q after /t1.jet had been executed", alone, after)
	}
}
