package jet

import (
	"bytes"
	"testing"
)

// An assignment to a variable that lives in the caller's VarMap is written into
// the caller's map (Execute uses it as the top scope), so the value bound during
// one execution is seen by every later execution that is given the same VarMap.
func TestFindingC10AssignmentLeaksThroughCallersVarMap(t *testing.T) {
	l := NewInMemLoader()
	l.Set("/t.jet", `{{ title }}{{ title = "changed" }}`)
	s := NewSet(l)
	tpl, err := s.GetTemplate("/t.jet")
	if err != nil {
		t.Fatal(err)
	}

	vars := make(VarMap).Set("title", "original") // e.g. an application-wide VarMap

	run := func() string {
		var b bytes.Buffer
		if err := tpl.Execute(&b, vars, nil); err != nil {
			t.Fatal(err)
		}
		return b.String()
	}
	first := run()
	second := run()
	if first != second {
		t.Errorf("same template, same VarMap, same data: first execution rendered %q, second rendered %q", first, second)
	}
	if got := vars["title"].Interface(); got != "original" {
		t.Errorf("caller's VarMap was modified by Execute: title = %q", got)
	}
}
