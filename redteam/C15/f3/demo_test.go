package jet

import (
	"bytes"
	"fmt"
	"io"
	"io/ioutil"
	"strings"
	"testing"
)

type c15f3Loader struct {
	files map[string]string
	seen  []string
}

func (l *c15f3Loader) Exists(p string) bool {
	l.seen = append(l.seen, p)
	_, ok := l.files[p]
	return ok
}

func (l *c15f3Loader) Open(p string) (io.ReadCloser, error) {
	l.seen = append(l.seen, p)
	c, ok := l.files[p]
	if !ok {
		return nil, fmt.Errorf("%s does not exist", p)
	}
	return ioutil.NopCloser(strings.NewReader(c)), nil
}

// The examples of the Loader documentation (loader.go:33 and :36), spelt with
// raw strings so that the backslashes survive unquoting. Fails on every
// platform whose os.PathSeparator is not '\\' (filepath.ToSlash is a no-op
// there); passes on Windows.
func TestFindingC15BackslashNamesAreNotSlashSeparated(t *testing.T) {
	l := &c15f3Loader{files: map[string]string{
		"/views/foo.jet":  "{{ include(`\\views\\bar.jet`) }}",
		"/views/foo2.jet": "{{ import `../views\\bar.jet` }}ok",
		"/views/bar.jet":  "bar",
	}}
	set := NewSet(l)

	for _, name := range []string{"/views/foo.jet", "/views/foo2.jet", `\views\bar.jet`} {
		tt, err := set.GetTemplate(name)
		if err == nil {
			err = tt.Execute(&bytes.Buffer{}, nil, nil)
		}
		if err != nil {
			t.Errorf("%s: %v (documented to look up /views/bar.jet)", name, err)
		}
	}
	for _, p := range l.seen {
		if strings.Contains(p, `\`) {
			t.Errorf("loader was handed %q, which is not slash-separated", p)
		}
	}
}
