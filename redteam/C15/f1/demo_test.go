package jet

import (
	"fmt"
	"io"
	"io/ioutil"
	"path"
	"strings"
	"testing"
)

// c15f1Loader is a strict map-backed loader: it answers only for the exact
// (clean, absolute) keys it holds and records every path the Set hands to it.
type c15f1Loader struct {
	files map[string]string
	seen  []string
}

func (l *c15f1Loader) Exists(p string) bool {
	l.seen = append(l.seen, p)
	_, ok := l.files[p]
	return ok
}

func (l *c15f1Loader) Open(p string) (io.ReadCloser, error) {
	l.seen = append(l.seen, p)
	c, ok := l.files[p]
	if !ok {
		return nil, fmt.Errorf("%s does not exist", p)
	}
	return ioutil.NopCloser(strings.NewReader(c)), nil
}

type c15f1Cache struct {
	m    map[string]*Template
	seen []string
}

func (c *c15f1Cache) Get(p string) *Template    { c.seen = append(c.seen, p); return c.m[p] }
func (c *c15f1Cache) Put(p string, t *Template) { c.seen = append(c.seen, p); c.m[p] = t }

// A "directory index" extension list: the name of a directory resolves to the
// index template inside it. It works for every directory except the root,
// where the Set builds "/" + "/index.jet" = "//index.jet" and hands that
// unclean path (empty segment) to the cache and to the loader.
func TestFindingC15ExtensionAppendedToRootIsNotClean(t *testing.T) {
	l := &c15f1Loader{files: map[string]string{
		"/index.jet":      "root index",
		"/blog/index.jet": "blog index",
	}}
	c := &c15f1Cache{m: map[string]*Template{}}
	set := NewSet(l, WithCache(c), WithTemplateNameExtensions([]string{"", ".jet", "/index.jet"}))

	// any directory below the root is fine
	if _, err := set.GetTemplate("/blog"); err != nil {
		t.Fatalf("GetTemplate(/blog): %v", err)
	}

	// the root, under any of its spellings
	for _, name := range []string{"/", "", ".", "..", "blog/..", "//"} {
		if _, err := set.GetTemplate(name); err != nil {
			t.Errorf("GetTemplate(%q): %v (want the template stored as /index.jet)", name, err)
		}
	}

	for _, p := range l.seen {
		if !path.IsAbs(p) || path.Clean(p) != p {
			t.Errorf("loader was handed the unclean path %q", p)
		}
	}
	for _, p := range c.seen {
		if !path.IsAbs(p) || path.Clean(p) != p {
			t.Errorf("cache was handed the unclean path %q", p)
		}
	}
}
