package jet

import (
	"io/ioutil"
	"os"
	"path/filepath"
	"testing"
)

// NewOSFileSystemLoader("") - the empty directory name, which everywhere else
// in Go's path handling (filepath.Join("", rel), filepath.Abs("")) stands for
// the current directory - does not root the loader in the current directory:
// filepath.Join("", "/x") is "/x", so every clean absolute path the Set hands
// over is opened in the root of the file system. Templates of the directory
// are not found, and any file of the machine is reachable by name.
func TestFindingC15EmptyDirLoaderIsRootedAtFilesystemRoot(t *testing.T) {
	base, err := ioutil.TempDir(".", "c15f2-") // scratch directory below the package directory
	if err != nil {
		t.Fatal(err)
	}
	if base, err = filepath.Abs(base); err != nil {
		t.Fatal(err)
	}
	defer os.RemoveAll(base)

	templates := filepath.Join(base, "templates")
	if err := os.Mkdir(templates, 0o755); err != nil {
		t.Fatal(err)
	}
	// a template inside the loader's directory, and a file outside of it
	ioutil.WriteFile(filepath.Join(templates, "page.jet"), []byte("page"), 0o644)
	secret := filepath.Join(base, "secret.txt")
	ioutil.WriteFile(secret, []byte("SECRET"), 0o644)

	old, err := os.Getwd()
	if err != nil {
		t.Fatal(err)
	}
	if err := os.Chdir(templates); err != nil {
		t.Fatal(err)
	}
	defer os.Chdir(old)

	set := NewSet(NewOSFileSystemLoader("")) // NewOSFileSystemLoader(".") behaves correctly

	if _, err := set.GetTemplate("page.jet"); err != nil {
		t.Errorf("template inside the loader's directory: %v", err)
	}
	// the name could just as well reach include/exec/includeIfExists through data
	if tt, err := set.GetTemplate(filepath.ToSlash(secret)); err == nil {
		t.Errorf("loader rooted in %q served %q, which lies outside of it (template name %s)", templates, secret, tt.Name)
	}
}
