package jet

import (
	"bytes"
	"testing"
)

// A range that comes after a {{return}} in the same list renders neither its
// body nor its else branch; a {{return}} inside the body ends the loop after
// the first element. The docs say: "return will not stop execution of the
// current block or template!".
func TestFindingC05RangeAfterReturnRendersNothing(t *testing.T) {
	l := NewInMemLoader()
	l.Set("/after.jet", `{{ return len(.) }}{{ range . }}[{{ . }}]{{ else }}empty{{ end }}`)
	l.Set("/inside.jet", `{{ range . }}[{{ . }}]{{ return . }}{{ end }}`)
	set := NewSet(l)
	data := []string{"a", "b"}

	for _, c := range []struct{ name, want string }{
		{"/after.jet", "[a][b]"},
		{"/inside.jet", "[a][b]"},
	} {
		tpl, err := set.GetTemplate(c.name)
		if err != nil {
			t.Fatal(err)
		}
		var buf bytes.Buffer
		if err := tpl.Execute(&buf, nil, data); err != nil {
			t.Fatalf("%s: %v", c.name, err)
		}
		if got := buf.String(); got != c.want {
			t.Errorf("%s: range over %v rendered %q, want %q (body once per element)", c.name, data, got, c.want)
		}
	}
}
