package jet

import (
	"bytes"
	"testing"
)

// The index and value that range binds for ints(a,b) are live aliases of the
// ranger's own counters: whatever keeps them beyond the iteration sees them
// change. After a '=' range the outer variables hold index 3 and value 8,
// neither of which is an element of ints(5,8); a value remembered in the
// first iteration turns into 8 as well.
func TestFindingC05IntsBoundValuesAliasRangerCounters(t *testing.T) {
	l := NewInMemLoader()
	l.Set("/set.jet", `{{ i := -1 }}{{ v := -1 }}{{ range i, v = ints(5,8) }}{{ end }}{{ i }},{{ v }}`)
	l.Set("/keep.jet", `{{ first := -1 }}{{ range i, v := ints(5,8) }}{{ if i == 0 }}{{ first = v }}{{ end }}{{ end }}{{ first }}`)
	l.Set("/slice.jet", `{{ i := -1 }}{{ v := -1 }}{{ range i, v = . }}{{ end }}{{ i }},{{ v }}`) // control
	set := NewSet(l)

	for _, c := range []struct {
		name, want string
		data       interface{}
	}{
		{"/slice.jet", "2,7", []int{5, 6, 7}},
		{"/set.jet", "2,7", nil},
		{"/keep.jet", "5", nil},
	} {
		tpl, err := set.GetTemplate(c.name)
		if err != nil {
			t.Fatal(err)
		}
		var buf bytes.Buffer
		if err := tpl.Execute(&buf, nil, c.data); err != nil {
			t.Fatalf("%s: %v", c.name, err)
		}
		if got := buf.String(); got != c.want {
			t.Errorf("%s: got %q, want %q", c.name, got, c.want)
		}
	}
}
