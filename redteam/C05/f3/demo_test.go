package jet

import (
	"bytes"
	"errors"
	"testing"
)

type c05LimitWriter struct {
	buf bytes.Buffer
	max int
}

func (w *c05LimitWriter) Write(p []byte) (int, error) {
	if w.buf.Len()+len(p) > w.max {
		return 0, errors.New("output limit reached")
	}
	return w.buf.Write(p)
}

// Ranging a second time over the value returned by ints(a,b) never ends:
// the exhausted ranger's counter is already past b and the end test is '=='.
// The limited writer is only there to stop the otherwise endless loop.
func TestFindingC05IntsRangedTwiceNeverEnds(t *testing.T) {
	l := NewInMemLoader()
	l.Set("/t.jet", `{{ pages := ints(1,4) }}{{ range pages }}{{ . }},{{ end }}|{{ range pages }}{{ . }},{{ else }}none{{ end }}`)
	set := NewSet(l)
	tpl, err := set.GetTemplate("/t.jet")
	if err != nil {
		t.Fatal(err)
	}
	w := &c05LimitWriter{max: 4096}
	err = tpl.Execute(w, nil, nil)
	got := w.buf.String()
	if len(got) > 80 {
		got = got[:80] + "..."
	}
	if err != nil || w.buf.String() != "1,2,3,|1,2,3," {
		t.Fatalf("got %q (%d bytes), err %v; want %q: ints(1,4) yields 1 up to 3", got, w.buf.Len(), err, "1,2,3,|1,2,3,")
	}
}
