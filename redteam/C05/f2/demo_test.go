package jet

import (
	"bytes"
	"reflect"
	"testing"
)

type c05Countdown struct{ i, n int }

func (r *c05Countdown) Range() (reflect.Value, reflect.Value, bool) {
	if r.i >= r.n {
		return reflect.Value{}, reflect.Value{}, true
	}
	r.i++
	return reflect.ValueOf(r.i - 1), reflect.ValueOf(r.i - 1), false
}
func (r *c05Countdown) ProvidesIndex() bool { return true }

// A custom Ranger that reaches range as an interface-kind value (result of a
// Go function declared to return interface{}, or an element of a
// []interface{} bound to '.') is rejected as "not rangeable".
func TestFindingC05RangerInsideInterfaceNotRangeable(t *testing.T) {
	l := NewInMemLoader()
	l.Set("/call.jet", `{{ range items() }}{{ . }};{{ end }}`)
	l.Set("/dot.jet", `{{ range . }}{{ range . }}{{ . }};{{ end }}{{ end }}`)
	l.Set("/var.jet", `{{ range _, r := . }}{{ range r }}{{ . }};{{ end }}{{ end }}`) // control: same data, works
	set := NewSet(l)

	vars := VarMap{}
	vars.Set("items", func() interface{} { return &c05Countdown{n: 3} })

	for _, c := range []struct {
		name string
		data func() interface{}
	}{
		{"/var.jet", func() interface{} { return []interface{}{&c05Countdown{n: 3}} }},
		{"/call.jet", func() interface{} { return nil }},
		{"/dot.jet", func() interface{} { return []interface{}{&c05Countdown{n: 3}} }},
	} {
		tpl, err := set.GetTemplate(c.name)
		if err != nil {
			t.Fatal(err)
		}
		var buf bytes.Buffer
		err = tpl.Execute(&buf, vars, c.data())
		if err != nil || buf.String() != "0;1;2;" {
			t.Errorf("%s: got %q, err %v; want %q, no error", c.name, buf.String(), err, "0;1;2;")
		}
	}
}
