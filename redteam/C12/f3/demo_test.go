package jet

import (
	"bytes"
	"strings"
	"testing"
)

// The right operand of an integer '%' (or '/') is zero: an operand of the
// wrong range. C12 demands a returned error naming "/t.jet" line 3; the
// unchanged library lets Go's "integer divide by zero" runtime error escape
// from Execute.
func TestFindingC12IntegerDivideByZeroPanics(t *testing.T) {
	for _, action := range []string{"{{ 7 % 0 }}", "{{ .N % .Z }}", "{{ .N / .Z }}"} {
		loader := NewInMemLoader()
		loader.Set("/t.jet", "L1\nL2\n"+action+"\nAFTER")
		set := NewSet(loader)
		tpl, err := set.GetTemplate("/t.jet")
		if err != nil {
			t.Fatalf("parse: %v", err)
		}

		var buf bytes.Buffer
		var panicked interface{}
		func() {
			defer func() { panicked = recover() }()
			err = tpl.Execute(&buf, nil, struct{ N, Z int }{7, 0})
		}()

		if panicked != nil {
			t.Errorf("%s: Execute panicked instead of returning an error: (%T) %v", action, panicked, panicked)
			continue
		}
		if err == nil {
			t.Errorf("%s: Execute returned nil error; output %q", action, buf.String())
			continue
		}
		if !strings.Contains(err.Error(), `"/t.jet":3`) {
			t.Errorf("%s: error does not name file and line 3: %v", action, err)
		}
		if buf.String() != "L1\nL2\n" {
			t.Errorf("%s: output = %q, want %q", action, buf.String(), "L1\nL2\n")
		}
	}
}
