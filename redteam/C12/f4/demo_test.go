package jet

import (
	"bytes"
	"strings"
	"testing"
)

// The failing action is a {{ yield ... content }} (unknown block / yield
// argument without a value) or a {{ block ... }} whose body spans several
// lines. C12 demands the 1-based line of the failing action; the unchanged
// library reports the line of the closing {{ end }} of the body instead.
func TestFindingC12YieldWithContentReportsLineOfEnd(t *testing.T) {
	cases := []struct {
		name, file, want string
		files            map[string]string
	}{
		{
			name: "unknown block, yield with content",
			file: "/t.jet",
			want: `"/t.jet":3`,
			files: map[string]string{
				"/t.jet": "L1\nL2\n{{ yield nosuchblock() content }}\nbody 4\nbody 5\n{{ end }}\nAFTER",
			},
		},
		{
			name: "yield argument without a value, yield with content, in an included file",
			file: "/main.jet",
			want: `"/inc.jet":3`,
			files: map[string]string{
				"/main.jet": "M1\n{{ include \"/inc.jet\" }}\nM3",
				"/inc.jet":  "{{ block b(x=1) }}{{ x }}{{ yield content }}{{ end }}\nI2\n{{ yield b(x) content }}\nbody 4\nbody 5\nbody 6\n{{ end }}\nAFTER",
			},
		},
		{
			name: "block parameter without a value, block body over several lines",
			file: "/t.jet",
			want: `"/t.jet":3`,
			files: map[string]string{
				"/t.jet": "L1\nL2\n{{ block b(x) }}\nbody 4\nbody 5\n{{ end }}\nAFTER",
			},
		},
	}
	for _, c := range cases {
		loader := NewInMemLoader()
		for k, v := range c.files {
			loader.Set(k, v)
		}
		set := NewSet(loader)
		tpl, err := set.GetTemplate(c.file)
		if err != nil {
			t.Fatalf("%s: parse: %v", c.name, err)
		}
		var buf bytes.Buffer
		err = tpl.Execute(&buf, nil, nil)
		if err == nil {
			t.Errorf("%s: Execute returned nil error; output %q", c.name, buf.String())
			continue
		}
		if !strings.Contains(err.Error(), c.want) {
			t.Errorf("%s: error should name %s (the line of the failing action), got: %v", c.name, c.want, err)
		}
	}
}
