package jet

import (
	"bytes"
	"strings"
	"testing"
)

// A map[int]string is indexed with a number literal (a float64 in Jet), i.e.
// with an index whose type is convertible but not assignable to the key type.
// C12 demands either a value or a returned error naming "/t.jet" line 3; the
// unchanged library lets reflect's panic ("reflect.Value.MapIndex: value of
// type float64 is not assignable to type int", a string) escape from Execute.
func TestFindingC12MapIndexConvertibleKeyPanics(t *testing.T) {
	loader := NewInMemLoader()
	loader.Set("/t.jet", "L1\nL2\n{{ .M[1] }}\nAFTER")
	set := NewSet(loader)
	tpl, err := set.GetTemplate("/t.jet")
	if err != nil {
		t.Fatalf("parse: %v", err)
	}

	var buf bytes.Buffer
	var panicked interface{}
	func() {
		defer func() { panicked = recover() }()
		err = tpl.Execute(&buf, nil, struct{ M map[int]string }{map[int]string{1: "one"}})
	}()

	if panicked != nil {
		t.Fatalf("Execute panicked instead of returning an error (or the value): (%T) %v", panicked, panicked)
	}
	if err == nil {
		// a successful, converted lookup would be fine too
		if buf.String() != "L1\nL2\none\nAFTER" {
			t.Fatalf("no error and output %q", buf.String())
		}
		return
	}
	if !strings.Contains(err.Error(), `"/t.jet":3`) {
		t.Fatalf("error does not name file and line 3: %v", err)
	}
	if buf.String() != "L1\nL2\n" {
		t.Fatalf("output = %q, want %q", buf.String(), "L1\nL2\n")
	}
}
