package jet

import (
	"bytes"
	"strings"
	"testing"
)

// A field that is not a function is called with an empty argument list:
// {{ .Name() }}. C12 demands a returned error naming "/t.jet" line 3; the
// unchanged library lets a Go runtime error (index out of range) escape
// from Execute.
func TestFindingC12CallOfNonFunctionWithNoArgs(t *testing.T) {
	loader := NewInMemLoader()
	loader.Set("/t.jet", "L1\nL2\n{{ .Name() }}\nAFTER")
	set := NewSet(loader)
	tpl, err := set.GetTemplate("/t.jet")
	if err != nil {
		t.Fatalf("parse: %v", err)
	}

	var buf bytes.Buffer
	var panicked interface{}
	func() {
		defer func() { panicked = recover() }()
		err = tpl.Execute(&buf, nil, struct{ Name string }{"x"})
	}()

	if panicked != nil {
		t.Fatalf("Execute panicked instead of returning an error: (%T) %v", panicked, panicked)
	}
	if err == nil {
		t.Fatalf("Execute returned nil error; output %q", buf.String())
	}
	if !strings.Contains(err.Error(), `"/t.jet":3`) {
		t.Fatalf("error does not name file and line 3: %v", err)
	}
	if buf.String() != "L1\nL2\n" {
		t.Fatalf("output = %q, want %q", buf.String(), "L1\nL2\n")
	}
}
