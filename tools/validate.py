#!/opt/veriftools/pyvenv/bin/python
import json, jsonschema, glob, sys
ok = True
m = json.load(open('/verif/MANIFEST.json'))
jsonschema.validate(m, json.load(open('/root/.vp/MANIFEST.schema.json')))
es = json.load(open('/root/.vp/EVIDENCE.schema.json'))
for c in m['checks']:
    try:
        jsonschema.validate(json.load(open(c['evidence_file'])), es)
        print('ok', c['evidence_file'])
    except Exception as e:
        ok = False; print('BAD', c['evidence_file'], str(e)[:300])
ids = {c['property_id'] for c in m['checks']} | {n['property_id'] for n in m.get('not_applicable', [])}
allp = {json.loads(l)['id'] for l in open('/verif/properties.jsonl')}
if ids != allp: ok = False; print('manifest does not cover', allp ^ ids)
sys.exit(0 if ok else 1)
