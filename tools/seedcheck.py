#!/usr/bin/env python3
"""Confirms a seeded change (patch.diff + demo_test.go) in a scratch worktree and runs checks against it.

usage: seedcheck.py <mutant-dir> <prop> [<prop>...] [--thorough-seconds N] [--no-confirm]
  1. scratch worktree of /repo HEAD under /tmp: demo passes without the patch; with it the
     existing suite passes and the demo fails.
  2. applies the patch to /repo, runs ./check <prop> quick (then thorough, capped) and undoes it.
Prints one summary line per step; never leaves /repo modified.
"""
import os, subprocess, sys, shutil, json, re, tempfile

ENV = dict(os.environ, GOFLAGS="-mod=mod", GOPROXY="off", GOSUMDB="off")
# SEEDCHECK_REPO / SEEDCHECK_VERIF: run against a scratch pair (a clean worktree of /repo and a copy of /verif
# whose go.mod points at it) instead of /repo and /verif themselves - e.g. while something else needs /repo clean
REPO = os.environ.get("SEEDCHECK_REPO", "/repo")
VERIF = os.environ.get("SEEDCHECK_VERIF", "/verif")

def sh(cmd, cwd=None, timeout=1800):
    p = subprocess.run(cmd, shell=True, cwd=cwd, env=ENV, capture_output=True, text=True, errors="replace", timeout=timeout)
    return p.returncode, p.stdout + p.stderr

def main():
    args = [a for a in sys.argv[1:] if not a.startswith("--")]
    mdir, props = args[0], args[1:]
    thorough = 90
    for i, a in enumerate(sys.argv):
        if a == "--thorough-seconds":
            thorough = int(sys.argv[i + 1]); props = [p for p in props if p != sys.argv[i + 1]]
    confirm = "--no-confirm" not in sys.argv
    patch = os.path.join(mdir, "patch.diff")
    demo = os.path.join(mdir, "demo_test.go")
    res = {"mutant": mdir}
    if confirm:
        wt = tempfile.mkdtemp(prefix="seedwt-", dir="/tmp")
        os.rmdir(wt)
        rc, out = sh(f"git -C /repo worktree add -q --detach {wt} HEAD")
        assert rc == 0, out
        try:
            shutil.copy(demo, os.path.join(wt, "zz_demo_test.go"))
            m = re.findall(r"func (Test\w+)\(", open(demo).read())
            run = "|".join(m)
            rc0, out0 = sh(f"go test -vet=off -count=1 -run '^({run})$' .", cwd=wt)
            res["demo_without_patch"] = "pass" if rc0 == 0 else "FAIL"
            os.remove(os.path.join(wt, "zz_demo_test.go"))
            rc, out = sh(f"git apply {patch} 2>&1 || git apply --3way {patch}", cwd=wt)
            res["patch_applies"] = rc == 0
            if rc != 0:
                res["apply_output"] = out[-600:]
            rc1, out1 = sh("go build ./... && go test -vet=off -count=1 ./...", cwd=wt)
            res["suite_with_patch"] = "pass" if rc1 == 0 else "FAIL"
            if rc1 != 0:
                res["suite_output"] = out1[-800:]
            shutil.copy(demo, os.path.join(wt, "zz_demo_test.go"))
            rc2, out2 = sh(f"go test -vet=off -count=1 -run '^({run})$' .", cwd=wt, timeout=300)
            res["demo_with_patch"] = "fail(as wanted)" if rc2 != 0 else "PASSES(not broken?)"
            res["demo_output"] = out2[-500:]
        finally:
            sh(f"git -C /repo worktree remove --force {wt}")
    # run checks against /repo with the patch applied
    rc, out = sh(f"git -C {REPO} status --porcelain")
    assert out.strip() == "", REPO + " not clean: " + out
    rc, out = sh(f"git -C {REPO} apply {patch} 2>&1 || git -C {REPO} apply --3way {patch}")
    if rc != 0:
        res["repo_apply"] = "FAILED: " + out[-400:]
        sh(f"git -C {REPO} reset -q --hard HEAD && git -C {REPO} clean -fdq")
        print(json.dumps(res, indent=1)); return
    try:
        for p in props:
            rc, out = sh(f"./check {p} quick --no-evidence", cwd=VERIF, timeout=3000)
            viol = [l for l in out.splitlines() if l.startswith("VIOLATION") or l.startswith("  oracle=")]
            res[f"{p}_quick"] = {"exit": rc, "found": viol[:6]}
            if rc == 0 and thorough > 0:
                rc, out = sh(f"./check {p} thorough --no-evidence --max-seconds {thorough}", cwd=VERIF, timeout=3000)
                viol = [l for l in out.splitlines() if l.startswith("VIOLATION") or l.startswith("  oracle=")]
                res[f"{p}_thorough"] = {"exit": rc, "found": viol[:6], "tail": out.splitlines()[-1:]}
            if rc == 2:
                res[f"{p}_output"] = out[-1500:]
    finally:
        sh(f"git -C {REPO} reset -q --hard HEAD && git -C {REPO} clean -fdq")
        rc, out = sh(f"git -C {REPO} status --porcelain")
        assert out.strip() == "", REPO + " not clean after undo: " + out
    print(json.dumps(res, indent=1))

main()
