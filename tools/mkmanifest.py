#!/usr/bin/env python3
"""Regenerates MANIFEST.json from the tables below (kept next to the driver's props table)."""
import json, subprocess, os
V = os.path.dirname(os.path.dirname(os.path.abspath(__file__)))

hook_commits = subprocess.run(["git","-C","/repo","log","--format=%H","--grep=^verif:"],capture_output=True,text=True).stdout.split()

claimed = {
 "C10": dict(engine="execsim", cat="fault_enumeration",
   text="Per generated template world the check enumerates every dynamic fault point (each probe-function call panicking with an error, each writer Write failing) of a failing execution, followed by every template of the world plus a state-probe template, with the simulated Runtime pool handing the follow-up exactly the Runtime the failed execution released; every call must equal its alone-run (fresh Set, fresh pool, same per-call fault plan) byte for byte and error for error, and the structural hash of every parsed Template must not change. Worlds, data and histories are sampled from the seed; the fault-point x follow-up dimension is exhausted per sampled world (capped at 24/60 points). As built additionally: histories also run Execute with nil variables (everything as Set globals), on a second Set holding other texts under the same names, after 300 further struct types were rendered and with one failure repeated 20-90 times; the caller's VarMap must come back unchanged, parsed templates keep their structural hash, same-shape struct types resolve alike; after the sweep 160 (thorough 1600) runs are replayed alone in fresh processes and their event logs compared (order independence).",
   note="Trusted: the verif hooks hand Execute the Runtime the simulator chose (sync.Pool's real behaviour is a subset); the generator only reaches the syntax it emits (blocks, yield/content, range, if-let, include, exec, try, extends/import); residue is judged through observable behaviour only.",
   tech="deterministic simulation: seeded history generation, simulated object pool (adversarial reuse), injected function/writer faults at every dynamic point, alone-run differential oracle, tape shrinking + replay",
   ref="DESIGN.md §6 C10"),
 "C13": dict(engine="execsim", cat="fault_enumeration",
   text="Per generated world one try statement is instrumented (bracketed by mark() calls, followed by state probes printing '.', isset of every variable of the world and of the catch variable, yield content and Execute variables) and placed under tape-chosen enclosing constructs (range with rebound context, if-let, block/yield with content, include with context, imported/extended files). Every dynamic probe call inside its body is made the failing one; the output must be exactly fault-free-prefix + catch rendering (once, with the injected error, per catch form) + fault-free-suffix, the fault-free segment must equal what the twin program without the try wrapper renders, and faults absorbed by an inner try must render what the body renders outside try under the same fault. As built additionally: four catch forms (incl. a return statement in the catch body and an empty catch body), wrapping errors, string panics and runtime errors as fault kinds; one run in ten is a re-entrant program judged by a reference model (a block yielding itself / a template including itself with one try statement re-entered from body and catch body, up to 1100 repetitions, the destination's k-th Write failing for every k; a layout whose try protects a block overridden by an extending template).",
   note="Trusted: writer offsets recorded by mark() identify the statement's extent; instances dynamically nested inside another try/exec are skipped by the spliced-output oracle; bodies do not assign outer variables (roll-back of those is not demanded by the statement).",
   tech="deterministic simulation: seeded program generation, fault injection at every dynamic call inside the try body, spliced-output and twin-program oracles, tape shrinking + replay",
   ref="DESIGN.md §6 C13"),
 "C12": dict(engine="execsim", cat="fault_enumeration",
   text="A failure site is a fault. Per generated world, every reached site placeholder (in the executed template, included files, imported blocks, extended parents, exec targets; under range/if/block/yield-content/include; outside try) is replaced, one at a time, by a failing action of each of ~68 self-detected failure classes (unknown identifier/field/method/block/template; index, slice bound, operand, call target, argument, range subject of wrong kind/count/range; yield argument without value; '_' without piped value; SafeWriter not last; built-in argument checks), and for the function-reports-an-error class every dynamic call of the site panics with an error. Judged per planted failure: Execute returns an error and does not panic; the message names the site's file and 1-based line (any position in the message may match, format-agnostic); the writer holds exactly the bytes the fault-free twin had written before the site (also at the fault instant: streaming); planting at a site that is never reached changes nothing. Sites and classes are capped per run in the quick tier (6 sites x 24 rotated classes) and widened in the thorough tier (12 x all). As built additionally: about 110 failure classes; whether a site is dynamically inside a try body or exec() is read off marks every try statement and exec'd template carries (not off the Runtime under test).",
   note="Trusted: the fault-free twin run (site = mark()) defines 'everything rendered before'; failing actions are single-line. 3 class-specific known findings (position-less errors from jet's own built-in functions and numeric conversion helpers) are listed in known_findings.json and reported as KNOWN-FINDING.",
   tech="deterministic simulation: seeded program generation, failing action planted at every reached site x failure class, function faults at every dynamic call, twin-run prefix oracle, tape shrinking + replay",
   ref="DESIGN.md §6 C12"),
 "C05": dict(engine="execsim", cat="exploration",
   text="Seeded exploration of nests of if/else-if/else and range over every rangeable kind (typed/interface slices, pointer-to-slice, arrays, ints(a,b), single/multi-entry maps, channels, index-providing and index-less custom Rangers; empty and non-empty; 0/1/2-variable forms with := and =; nested and re-ranged), whose rendering is known by construction from the documented rules. The simulator owns the ranger pools (adversarial reuse: a nested or later range receives the ranger released last; every execution is repeated under the fresh pool and both must match the expectation), feeds channels from producer goroutines on virtual time (gaps of seconds to 12 hours, close before first receive / long after last send; a range must end once its producer closed the channel), and injects function faults inside range bodies under try, after which later ranges over the same and other subjects must still behave. As built additionally: '_' spellings, interface-wrapped and pointer conditions, maps up to 13 entries, channels of interface values with nil elements, zero-valued arrays, chan- and slice-typed custom Rangers; one run in ten is a re-entrant program (the same range statement active up to four times) judged by a closed-form model.",
   note="Trusted: the ~100-line reference evaluator for if/range (conditions come from a fixed truthiness table limited to the kinds the statement lists); multi-entry map iterations are compared as multisets. Sampling only: no claim over all programs.",
   tech="deterministic simulation: seeded program generation, simulated ranger pool, virtual-time channel producers (testing/synctest), fault injection under try, reference-model oracle, tape shrinking + replay",
   ref="DESIGN.md §6 C05"),
 "C15": dict(engine="loadersim", cat="exploration",
   text="Seam invariant monitored on every Loader.Exists/Open and Cache.Get/Put call over seeded histories that take every lookup path (GetTemplate, Parse, extends, import, include with literal and data-computed names, exec, includeIfExists; cache hit and miss; development mode; 4 extension lists) with tape-spelled names (relative/absolute, ./ ../ // segments anywhere, more .. than the depth, trailing slash, spellings aimed at a canary file outside the root) from referrers at depth 0-3: each path must be canonical and in the allowed set {expected(referrer, name, kind)+ext}, Template.Name must be canonical, an existing canonical target must be found and rendered, and on a real directory-rooted OSFileSystemLoader the canary outside the root must never be rendered. As built additionally: 110/140-character directory names, dot-prefixed directories, two references from one referrer, loader faults (transient miss, open/read error, panics in Exists/Open/Read), a Set behind a multi loader, and one run in twelve as a concurrent history under the seeded scheduler.",
   note="Honest note: the decisive dimension is the spelling of names (input generation); the simulator contributes the recording seams, the histories and the real directory-rooted loader. Backslashes are generated as the ordinary characters they are on this platform.",
   tech="deterministic simulation: seeded reference histories, recording Loader/Cache seams with an invariant checked on every call, real scratch-directory loader with canary, tape shrinking + replay",
   ref="DESIGN.md §6 C15"),
 "C16": dict(engine="loadersim", cat="exploration",
   text="Seeded histories (4-30 operations) of GetTemplate, GetTemplate+Execute with run-time includes, Parse with extends/import, loader Set/Delete with unique version markers, new Set over the same loader (restart analogue) and loader fault sequences (transient miss, Exists-true-then-Open-error, read error after k bytes, close error, unparsable content; faults stop at a tape-chosen point) on 1-2 Sets, under every combination of development mode, default vs recording cache and 5 extension lists. Each operation is judged against a clause-level reference model: identical pointer and zero loader calls on repeat lookups; never an answer without the loader unless something legitimately cacheable was loaded under that name (failures and Parse results are never remembered); progress within one call once faults stopped; development mode always reloads, renders current versions and never Puts; candidate extensions probed strictly in order and exactly the found path opened. As built additionally: files up to 70 KB, chains of up to four templates, run-time includeIfExists/exec, loader panics, reads delivering data together with an error or with EOF, files stored again between Open and Read, a user cache that forgets entries, one cache shared by a development-mode and an ordinary Set; one run in eight is a concurrent history (seeded scheduler, seam calls attributed per client and operation).",
   note="Trusted: the clause model is silent where the statement is silent (shared entries between spellings, Close discipline); version markers make every rendered byte attributable.",
   tech="deterministic simulation: seeded operation/fault histories over Loader and Cache seams, executable clause model as oracle, tape shrinking + replay",
   ref="DESIGN.md §6 C16"),
 "C19": dict(engine="loadersim", cat="exploration",
   text="Seeded edit/query histories against a reference tree (path -> bytes | directory): InMemLoader under arbitrary spellings of Set/Delete/Exists/Open; OSFileSystemLoader over a real per-run scratch directory mutated with WriteFile/MkdirAll/RemoveAll; httpfs over a simulated http.FileSystem with injected Open/Stat/Read errors; embedfs over a static embedded tree with an exhaustive sweep of its path alphabet to depth 4; multi stacks of 1-3 loaders with overlapping contents (directory in an earlier loader, file in a later one) and AddLoaders mid-history. Exists(p) must hold iff the reference has a regular file at p, Exists implies Open reads exactly the reference bytes (multi: of the first loader in construction order that has it); after an injected fault only that call may fail, wrong bytes are never accepted. As built additionally: httpfs over a real http.Dir, nested Multis, ClearLoaders, held readers, OS root spellings, dangling symbolic links, short reads, a member loader that panics once, and one run in twelve with overlapping lookups on one multi loader under the seeded scheduler.",
   note="Trusted: the reference tree; file-system loaders are queried only with clean absolute paths; the OS loader runs on the real disk (no fault injection); embed.FS is static.",
   tech="deterministic simulation: seeded edit/query histories, simulated http.FileSystem with fault injection, reference-tree oracle, exhaustive embedfs sweep, tape shrinking + replay",
   ref="DESIGN.md §6 C19"),
 "C11": dict(engine="schedsim", cat="exploration",
   text="2-4 simulated clients are real goroutines of which exactly one runs at a time; the next one is chosen from the seed at every yield point (jet's verifYield hook before each lock / shared-container access, every entry into the Loader, Cache and Writer seams), under a uniform-with-stay-bias or a PCT strategy. Each client issues 2-12 operations on one Set: GetTemplate/Parse/Execute of generated templates (first-time loads of shared extends/import/include targets, field-cache population reset per run, slow-path promoted fields), AddGlobal/LookupGlobal/{{g}} with unique values, Set/Delete/Exists/Open on the in-memory loader, edits of volatile templates, dump(); simulated pools hand Runtimes and rangers across clients. Oracles: (1) the same seeds run in a -race worker whose baton is invisible to the race detector, so an access pair not ordered by jet's own synchronisation is reported deterministically by schedule; (2) every Execute of a stable template equals its alone-run; (3) globals are a linearizable register per key and the in-memory loader a linearizable map (porcupine, event sequence numbers); (4) volatile templates render only versions somebody had written; (5) all clients finish (watchdog, step bound). As built additionally: failing executions (function errors with per-operation tags, non-error panic values, writer faults), a template including itself 60 levels deep, executions of a template other clients store and delete.",
   note="Trusted: the Go race detector for oracle (1) - sound for the executions it sees; whether it still holds the earlier access is not schedule-determined, so race findings are re-tried up to 15 times before being reported and a finding that never reproduces is exit 2. Not demanded: pointer-identity of concurrent GetTemplate results, linearizability of loads against loader edits.",
   tech="deterministic simulation: seeded scheduler over real goroutines (stealth baton, PCT), simulated object pools, race detector under a serialised schedule, porcupine linearizability check, alone-run differential oracle, cross-process tape shrinking + replay",
   ref="DESIGN.md §6 C11"),
 "C02": dict(engine="parsesim", cat="exploration",
   text="Seeded mutation sequences (truncate at any byte offset, delete/duplicate/swap chunks, splice ~120 lexer-relevant fragments inside actions, byte replacement, and 9 ground-truth structural mistakes) over generated template worlds under 14 delimiter configurations, with loader fault plans for the files reached through extends/import. Every Set.Parse / Set.GetTemplate call runs in its own testing/synctest bubble inside an isolated worker process: a panic in the lexer's background goroutine kills the worker (observed and replayed across processes by the driver), a lexer goroutine still blocked after the call makes the bubble deadlock (goroutine-leak oracle, also when the failure was an injected loader error in a referenced template), a per-run watchdog catches hangs. Also judged: (template, nil) or (_, error); syntax errors name a file of the set and a line inside it; ground-truth mistakes (unterminated action/comment/string, missing or surplus end, extends/import after content, unclosed parenthesis, overlapping comment markers) are rejected. As built additionally: sources padded to 512/4096/65536-byte boundaries, extends/import cycles, loader panics, reads delivering data together with an error or with EOF.",
   note="Honest note: which strings are tried is input generation; the simulator contributes the only sound way to observe three of the four observables (background panic, goroutine left running, hang) and the loader-fault dimension. Sources are capped at 256 KiB.",
   tech="deterministic simulation: seeded mutation + loader fault sequences, worker-process crash boundary, synctest bubble as goroutine-leak oracle, watchdog, cross-process tape shrinking + replay",
   ref="DESIGN.md §6 C02"),
}

not_applicable = {
 "C01": "pure function of (template, value, escaper): no schedule, fault, pooled state or history can change the bytes; a simulator would only be a random-input generator (DESIGN.md §7)",
 "C03": "pure function of (source bytes, delimiter strings); nothing for a scheduler or fault injector to own (DESIGN.md §7)",
 "C04": "pure function of (expression, operands); deciding it needs a reference evaluator, i.e. another technique (DESIGN.md §7)",
 "C06": "pure function of (data graph, access path); its only shared state, the field cache, is exercised for races/atomicity under C11 (DESIGN.md §7)",
 "C07": "pure function of the program; its failure-unwinding corner is decided by C13 and its cross-execution corner by C10 (DESIGN.md §7)",
 "C08": "pure function of the template set (block precedence is fixed at parse time) (DESIGN.md §7)",
 "C09": "pure function of (template set, data); only its loader/cache traffic has a history, and that is C16 (DESIGN.md §7)",
 "C14": "pure function of the program (call-shape equivalence, built-in table) (DESIGN.md §7)",
 "C17": "pure function of (data graph, argument list) (DESIGN.md §7)",
 "C18": "single-threaded, fault-free API-vs-syntax equivalence: stateful input generation, not simulation (DESIGN.md §7)",
 "C20": "pure function of the AST (DESIGN.md §7)",
}
pending = {k: 'claimed in DESIGN.md §2; its check is still under construction, so nothing is asserted yet' for k in []}  # id -> reason, for claimed-in-design properties whose check is not built yet

m = {
 "version": 1,
 "setup_cmd": "./setup.sh",
 "hooks": {
   "guard": "verif (Go build tag)",
   "enable": "workers are built with `go test -c -tags verif` (and additionally -race for C11's race half) from /repo's working tree through the replace directive in /verif/go.mod",
   "baseline_off_cmd": "cd /repo && GOFLAGS=-mod=mod GOPROXY=off GOSUMDB=off go test -vet=off -count=1 ./...",
   "source_commits": hook_commits,
   "add_only": True,
 },
 "engines": [
   {"name":"execsim","path":"engines/execsim","serves_properties":["C05","C10","C12","C13"],"kind_free_text":"single-goroutine execution simulator: simulated Runtime/ranger pools, writer and user-function fault injection at every dynamic point, virtual time for channel ranges"},
   {"name":"loadersim","path":"engines/loadersim","serves_properties":["C15","C16","C19"],"kind_free_text":"history simulator over the Loader/Cache/http.FileSystem seams with loader fault sequences and reference models"},
   {"name":"schedsim","path":"engines/schedsim","serves_properties":["C11"],"kind_free_text":"seeded scheduler over real goroutines (one at a time, stealth baton invisible to the race detector), porcupine linearizability check"},
   {"name":"parsesim","path":"engines/parsesim","serves_properties":["C02"],"kind_free_text":"parse simulations inside testing/synctest bubbles in isolated worker processes: lexer-goroutine lifecycle, loader faults during extends/import"},
 ],
 "checks": [],
 "not_applicable": [],
 "notes": "All checks: `./check <id> <tier>` -> bin/simdriver (rebuilds the worker test binaries from /repo's working tree on every invocation; exit 0 held / 1 violation / 2 machinery trouble). Replays: ./bin/simdriver replay <file>. Known findings: known_findings.json.",
}
for pid in sorted(claimed):
    c = claimed[pid]
    m["checks"].append({
      "property_id": pid,
      "quick_cmd": f"./check {pid} quick",
      "thorough_cmd": f"./check {pid} thorough",
      "evidence_file": f"/verif/evidence/{pid}.json",
      "replay_cmd_template": "./replay {path}",
      "engine": c["engine"],
      "level_claimed": {"category": c["cat"], "text": c["text"], "design_ref": c["ref"]},
      "level_note": c["note"],
      "technique": c["tech"],
    })
for pid in sorted({**not_applicable, **pending}):
    m["not_applicable"].append({"property_id": pid, "reason": (not_applicable.get(pid) or pending[pid])})
json.dump(m, open(os.path.join(V,"MANIFEST.json"),"w"), indent=1)
print("claimed:", sorted(claimed), "n/a:", len(m["not_applicable"]))
